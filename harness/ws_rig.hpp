// Shared by the C18 drivers (drv_ws.cpp, drv_s_wsclose.cpp): payload hash, raw loopback sockets, a strict RFC 6455 frame
// reader for the harness side of the connection, the observation record, and the rigs that put a real WebSocketServer /
// WebSocketClient at the other end of a raw socket.
#pragma once
#include "iora/network/websocket_client.hpp"
#include "iora/network/websocket_server.hpp"
#include "vf/exec.hpp"
#include "vf/trace.hpp"

#include <arpa/inet.h>
#include <netinet/in.h>
#include <netinet/tcp.h>
#include <openssl/evp.h>
#include <openssl/sha.h>
#include <poll.h>
#include <sys/socket.h>

using namespace iora::network;
using iora::core::BufferView;

// ------------------------------------------------------------------------------------------- small helpers
typedef std::vector<std::uint8_t> Bytes;
static const int kP = 32749, kB = 263;
static int hashOf(const std::uint8_t *p, std::size_t n)
{
  long long h = 0;
  for (std::size_t i = 0; i < n; ++i) h = (h * kB + p[i] + 1) % kP;
  return (int)h;
}
static int hexv(char c) { return c <= '9' ? c - '0' : (c | 0x20) - 'a' + 10; }
static Bytes expandData(const std::string &spec)
{
  Bytes out;
  if (spec == "-") return out;
  for (auto &part : vf::split(spec, '+'))
  {
    if (part.empty() || part == "-") continue;
    if (part[0] == 'R')
    {
      auto x = part.find('x');
      std::size_t n = strtoull(part.c_str() + 1, nullptr, 10);
      Bytes unit;
      for (std::size_t i = x + 1; i + 1 < part.size(); i += 2) unit.push_back((std::uint8_t)(hexv(part[i]) * 16 + hexv(part[i + 1])));
      for (std::size_t k = 0; k < n; ++k) out.insert(out.end(), unit.begin(), unit.end());
    }
    else if (part[0] == 'r')
    {
      auto x = part.find('x');
      std::size_t n = strtoull(part.c_str() + 1, nullptr, 10);
      std::uint8_t b = (std::uint8_t)strtoul(part.c_str() + x + 1, nullptr, 16);
      out.insert(out.end(), n, b);
    }
    else
      for (std::size_t i = 0; i + 1 < part.size(); i += 2) out.push_back((std::uint8_t)(hexv(part[i]) * 16 + hexv(part[i + 1])));
  }
  return out;
}
static std::vector<std::size_t> expandSegs(const std::string &spec, std::size_t total)
{
  std::vector<std::size_t> s;
  if (spec == "w" || total == 0)
  {
    s.push_back(total);
    return s;
  }
  if (spec == "b")
  {
    s.assign(total, 1);
    return s;
  }
  std::size_t used = 0;
  if (spec[0] == 'c')
  {
    std::size_t n = strtoull(spec.c_str() + 1, nullptr, 10);
    if (n == 0) n = 1;
    while (used < total)
    {
      std::size_t k = std::min(n, total - used);
      s.push_back(k);
      used += k;
    }
    return s;
  }
  for (auto &w : vf::split(spec, ','))
  {
    if (w.empty()) continue;
    std::size_t k = std::min((std::size_t)strtoull(w.c_str(), nullptr, 10), total - used);
    if (k == 0) continue;
    s.push_back(k);
    used += k;
  }
  if (used < total) s.push_back(total - used);
  return s;
}
// exact-size heap copy (malloc, so that it is not part of the accounted allocations and ASan sees the exact bounds)
struct Exact
{
  std::uint8_t *p;
  std::size_t n;
  Exact(const std::uint8_t *src, std::size_t len) : n(len)
  {
    p = (std::uint8_t *)malloc(len ? len : 1);
    if (len) memcpy(p, src, len);
    if (!len)
    {
      free(p);
      p = (std::uint8_t *)malloc(0);
    }
  }
  ~Exact() { free(p); }
};

// ------------------------------------------------------------------------------------------- raw sockets
static int listenEphemeral(std::uint16_t &port)
{
  int fd = socket(AF_INET, SOCK_STREAM, 0);
  int one = 1;
  setsockopt(fd, SOL_SOCKET, SO_REUSEADDR, &one, sizeof one);
  sockaddr_in a{};
  a.sin_family = AF_INET;
  a.sin_addr.s_addr = htonl(INADDR_LOOPBACK);
  a.sin_port = 0;
  if (bind(fd, (sockaddr *)&a, sizeof a) != 0 || listen(fd, 16) != 0)
  {
    close(fd);
    return -1;
  }
  socklen_t sl = sizeof a;
  getsockname(fd, (sockaddr *)&a, &sl);
  port = ntohs(a.sin_port);
  return fd;
}
// The engine under test binds its listeners with SO_REUSEPORT: two servers of parallel driver processes that happened to
// pick the same port would SHARE it and steal each other's connections.  So the port is reserved for the life of the
// process: a socket bound (never listening) to a kernel-chosen free port with SO_REUSEPORT set - the server may bind next
// to it, the kernel hands the port to no other automatic bind, and only listening sockets receive connections.
static int reservePort(std::uint16_t &port)
{
  int fd = socket(AF_INET, SOCK_STREAM, 0);
  int one = 1;
  setsockopt(fd, SOL_SOCKET, SO_REUSEADDR, &one, sizeof one);
  setsockopt(fd, SOL_SOCKET, SO_REUSEPORT, &one, sizeof one);
  sockaddr_in a{};
  a.sin_family = AF_INET;
  a.sin_addr.s_addr = htonl(INADDR_LOOPBACK);
  a.sin_port = 0;
  if (bind(fd, (sockaddr *)&a, sizeof a) != 0)
  {
    close(fd);
    return -1;
  }
  socklen_t sl = sizeof a;
  getsockname(fd, (sockaddr *)&a, &sl);
  port = ntohs(a.sin_port);
  return fd;
}
static int connectTo(std::uint16_t port)
{
  int fd = socket(AF_INET, SOCK_STREAM, 0);
  sockaddr_in a{};
  a.sin_family = AF_INET;
  a.sin_addr.s_addr = htonl(INADDR_LOOPBACK);
  a.sin_port = htons(port);
  if (connect(fd, (sockaddr *)&a, sizeof a) != 0)
  {
    close(fd);
    return -1;
  }
  int one = 1;
  setsockopt(fd, IPPROTO_TCP, TCP_NODELAY, &one, sizeof one);
  return fd;
}
static bool sendAll(int fd, const void *p, std::size_t n)
{
  const char *c = (const char *)p;
  while (n)
  {
    ssize_t k = send(fd, c, n, MSG_NOSIGNAL);
    if (k <= 0) return false;
    c += k;
    n -= (std::size_t)k;
  }
  return true;
}
// read more bytes into buf; returns >0 bytes, 0 EOF/error, -1 timeout
static int readMore(int fd, Bytes &buf, int timeoutMs)
{
  pollfd pf{fd, POLLIN, 0};
  int r = poll(&pf, 1, timeoutMs);
  if (r == 0) return -1;
  if (r < 0) return 0;
  std::uint8_t tmp[65536];
  ssize_t k = recv(fd, tmp, sizeof tmp, 0);
  if (k <= 0) return 0;
  buf.insert(buf.end(), tmp, tmp + k);
  return (int)k;
}
static std::string b64(const unsigned char *p, int n)
{
  std::string o(4 * ((n + 2) / 3) + 1, '\0');
  int k = EVP_EncodeBlock((unsigned char *)&o[0], p, n);
  o.resize(k);
  return o;
}
static std::string acceptFor(const std::string &key)
{
  std::string c = key + "258EAFA5-E914-47DA-95CA-C5AB0DC85B11";
  unsigned char d[20];
  SHA1((const unsigned char *)c.data(), c.size(), d);
  return b64(d, 20);
}

// strict RFC 6455 frame reader used on the harness side of the socket
struct WFrame
{
  bool fin = false, masked = false, minimal = true;
  int rsv = 0, op = 0;
  Bytes payload;
};
// returns 1 frame extracted, 0 need more, -1 not a frame the harness can read (length > 2^31)
static int extractFrame(Bytes &buf, WFrame &f)
{
  if (buf.size() < 2) return 0;
  std::size_t pos = 2;
  f.fin = buf[0] & 0x80;
  f.rsv = (buf[0] >> 4) & 7;
  f.op = buf[0] & 0x0F;
  f.masked = buf[1] & 0x80;
  std::uint64_t len = buf[1] & 0x7F;
  f.minimal = true;
  if (len == 126)
  {
    if (buf.size() < 4) return 0;
    len = ((std::uint64_t)buf[2] << 8) | buf[3];
    pos = 4;
    f.minimal = len > 125;
  }
  else if (len == 127)
  {
    if (buf.size() < 10) return 0;
    len = 0;
    for (int i = 0; i < 8; ++i) len = (len << 8) | buf[2 + i];
    pos = 10;
    f.minimal = len > 0xFFFF;
  }
  if (len > (1ull << 31)) return -1;
  std::uint8_t mk[4] = {0, 0, 0, 0};
  if (f.masked)
  {
    if (buf.size() < pos + 4) return 0;
    memcpy(mk, &buf[pos], 4);
    pos += 4;
  }
  if (buf.size() - pos < len) return 0;
  f.payload.assign(buf.begin() + pos, buf.begin() + pos + len);
  if (f.masked)
    for (std::size_t i = 0; i < f.payload.size(); ++i) f.payload[i] ^= mk[i % 4];
  buf.erase(buf.begin(), buf.begin() + pos + len);
  return 1;
}
static const char kSentinel[] = "~vf-END~";
static Bytes sentinelFrame(int op)
{
  Bytes b;
  b.push_back((std::uint8_t)(0x80 | op));
  b.push_back((std::uint8_t)(sizeof kSentinel - 1));
  b.insert(b.end(), kSentinel, kSentinel + sizeof kSentinel - 1);
  return b;
}
static bool isSentinel(const WFrame &f)
{
  return f.payload.size() == sizeof kSentinel - 1 && memcmp(f.payload.data(), kSentinel, sizeof kSentinel - 1) == 0;
}

// ------------------------------------------------------------------------------------------- observation record
struct SpinLock
{
  std::atomic_flag f = ATOMIC_FLAG_INIT;
  void lock()
  {
    while (f.test_and_set(std::memory_order_acquire))
    {
    }
  }
  void unlock() { f.clear(std::memory_order_release); }
};
// (a spin lock, never a pthread mutex: under vf/sched a mutex would be a schedule point of the harness' own making)
struct Obs
{
  SpinLock m;
  std::string msgs, outs, closed; // json array bodies
  int nmsgs = 0, nouts = 0, errs = 0;
  bool thrown = false, timeout = false, eof = false, unreadable = false, strictOk = true;
  std::string what;
  void msg(const char *kind, const std::uint8_t *p, std::size_t n)
  {
    std::lock_guard<SpinLock> g(m);
    if (nmsgs++) msgs += ",";
    msgs += "{\"k\":\"" + std::string(kind) + "\",\"n\":" + std::to_string(n) + ",\"h\":" + std::to_string(hashOf(p, n)) + "}";
  }
  void out(const WFrame &f)
  {
    std::lock_guard<SpinLock> g(m);
    if (f.rsv != 0 || !f.minimal) strictOk = false;
    if (nouts >= 100)
    {
      // a flood of answers (e.g. one close frame per inbound frame): the first 100 are recorded, the rest counted
      ++nouts;
      return;
    }
    if (nouts++) outs += ",";
    int code = 0;
    if (f.op == 8 && f.payload.size() >= 2) code = (f.payload[0] << 8) | f.payload[1];
    outs += "{\"op\":" + std::to_string(f.op) + ",\"fin\":" + (f.fin ? "true" : "false") + ",\"n\":" + std::to_string(f.payload.size()) +
            ",\"h\":" + std::to_string(hashOf(f.payload.data(), f.payload.size())) + ",\"m\":" + (f.masked ? "true" : "false") +
            ",\"code\":" + std::to_string(code) + "}";
    if (f.rsv != 0 || !f.minimal) strictOk = false;
  }
  void closedCb(int code)
  {
    std::lock_guard<SpinLock> g(m);
    if (!closed.empty()) closed += ",";
    closed += std::to_string(code);
  }
  void err()
  {
    std::lock_guard<SpinLock> g(m);
    ++errs;
  }
};
static std::atomic<Obs *> g_obs{nullptr}; // observation record of the run in progress
static Obs *curObs() { return g_obs.load(); }
static void setObs(Obs *o) { g_obs.store(o); }

// read the endpoint's frames from the harness side of the socket until the sentinel / EOF / timeout
static void drain(int fd, Bytes &rbuf, Obs &o, int timeoutMs = 20000)
{
  for (;;)
  {
    WFrame f;
    int r = extractFrame(rbuf, f);
    if (r < 0)
    {
      o.unreadable = true;
      return;
    }
    if (r == 1)
    {
      if (isSentinel(f)) return;
      o.out(f);
      continue;
    }
    int k = readMore(fd, rbuf, timeoutMs);
    if (k == 0)
    {
      o.eof = true;
      return;
    }
    if (k < 0)
    {
      o.timeout = true;
      return;
    }
  }
}

// ------------------------------------------------------------------------------------------- server under test
class VServer : public WebSocketServer
{
public:
  using WebSocketServer::WebSocketServer;
  void feed(SessionId sid, const std::uint8_t *p, std::size_t n) { WebSocketServer::onUpgradedData(sid, p, n); }
  void rawOut(SessionId sid, const Bytes &b) { sendRaw(sid, b.data(), b.size()); }
  std::atomic<unsigned long long> seenBytes{0}, doneBytes{0};
  std::atomic<int> chunks{0};

protected:
  void onUpgradedData(SessionId sid, const std::uint8_t *data, std::size_t len) override
  {
    seenBytes += len;
    ++chunks;
    try
    {
      WebSocketServer::onUpgradedData(sid, data, len);
    }
    catch (...)
    {
      if (Obs *o = curObs()) o->thrown = true;
    }
    doneBytes += len;
  }
};

struct ServerRig
{
  std::unique_ptr<VServer> srv;
  std::uint16_t port = 0;
  int reserveFd = -1;
  std::mutex m;
  std::condition_variable cv;
  std::vector<SessionId> connected;
  std::function<void(SessionId, const std::string &)> onText; // per-run extra behaviour (scripts)
  std::function<void(SessionId)> onCloseHook;

  bool start()
  {
    for (int attempt = 0; attempt < 20; ++attempt)
    {
      std::uint16_t p = 0;
      int fd = reservePort(p);
      if (fd < 0) continue;
      try
      {
        srv.reset(new VServer("127.0.0.1", p));
        srv->setOnConnect(
          [this](SessionId sid, const std::string &)
          {
            std::lock_guard<std::mutex> g(m);
            connected.push_back(sid);
            cv.notify_all();
          });
        srv->setOnTextMessage(
          [this](SessionId sid, const std::string &t)
          {
            if (Obs *o = curObs()) o->msg("t", (const std::uint8_t *)t.data(), t.size());
            if (onText) onText(sid, t);
          });
        srv->setOnBinaryMessage(
          [](SessionId, const Bytes &b)
          {
            if (Obs *o = curObs()) o->msg("b", b.data(), b.size());
          });
        srv->setOnClose(
          [this](SessionId sid, std::uint16_t code, const std::string &)
          {
            if (Obs *o = curObs()) o->closedCb(code);
            if (onCloseHook) onCloseHook(sid);
          });
        srv->setOnError(
          [](SessionId, const std::string &)
          {
            if (Obs *o = curObs()) o->err();
          });
        srv->start();
        port = p;
        reserveFd = fd; // kept open until the process exits
        return true;
      }
      catch (...)
      {
        srv.reset();
        close(fd);
      }
    }
    return false;
  }
  // open one upgraded connection; returns fd (or -1) and the server side session id
  // glued: bytes sent in the SAME write as the upgrade request (the server finds them behind the request in its HTTP
  // buffer and hands them to the upgraded protocol after the 101: http_server.hpp "buffer-drain"); what the server sends
  // behind the 101 is returned in `after`
  int open(SessionId &sid, bool &acceptOk, std::string &why, const Bytes *glued = nullptr, Bytes *after = nullptr)
  {
    int fd = connectTo(port);
    if (fd < 0)
    {
      why = "connect";
      return -1;
    }
    {
      std::lock_guard<std::mutex> g(m);
      connected.clear();
    }
    static const char req[] = "GET /ws HTTP/1.1\r\nHost: 127.0.0.1\r\nUpgrade: websocket\r\nConnection: Upgrade\r\n"
                              "Sec-WebSocket-Key: dGhlIHNhbXBsZSBub25jZQ==\r\nSec-WebSocket-Version: 13\r\n\r\n";
    Bytes first(req, req + sizeof req - 1);
    if (glued) first.insert(first.end(), glued->begin(), glued->end());
    if (!sendAll(fd, first.data(), first.size()))
    {
      why = "send";
      close(fd);
      return -1;
    }
    Bytes rb;
    std::string head;
    for (;;)
    {
      head.assign(rb.begin(), rb.end());
      if (head.find("\r\n\r\n") != std::string::npos) break;
      int k = readMore(fd, rb, 30000);
      if (k <= 0)
      {
        why = "no 101";
        close(fd);
        return -1;
      }
    }
    std::size_t hend = head.find("\r\n\r\n") + 4;
    acceptOk = head.rfind("HTTP/1.1 101", 0) == 0 && head.find("s3pPLMBiTxaQ9kYGzzhZRbK+xOo=") != std::string::npos &&
               (head.size() == hend || glued != nullptr);
    if (after) after->assign(rb.begin() + hend, rb.end());
    std::unique_lock<std::mutex> lk(m);
    if (!cv.wait_for(lk, std::chrono::seconds(30), [this] { return !connected.empty(); }))
    {
      why = "no onConnect";
      close(fd);
      return -1;
    }
    sid = connected.back();
    return fd;
  }
};
static ServerRig *g_rig = nullptr;
static ServerRig &rig()
{
  if (!g_rig)
  {
    g_rig = new ServerRig();
    if (!g_rig->start())
    {
      fprintf(stderr, "drv_ws: cannot start the server\n");
      _exit(3);
    }
  }
  return *g_rig;
}

// ------------------------------------------------------------------------------------------- client under test
namespace iora
{
namespace verif
{
struct Access
{
  static void feed(network::WebSocketClient &c, const std::uint8_t *p, std::size_t n) { c.handleData(0, p, n); }
  static void raw(network::WebSocketClient &c, const Bytes &b) { c.sendRawBytes(b.data(), b.size()); }
};
} // namespace verif
} // namespace iora
using iora::verif::Access;

// sets Options::maxMessageSize when the library has it (added by the F-18b repair), otherwise the client has no limit
template <class O> static auto setClientMax(O &o, std::size_t v, int) -> decltype(o.maxMessageSize = v, true)
{
  o.maxMessageSize = v;
  return true;
}
template <class O> static bool setClientMax(O &, std::size_t, long) { return false; }

struct ClientRig
{
  std::shared_ptr<WebSocketClient> cl;
  int lfd = -1, fd = -1;
  bool hasMax = false;
  std::function<void(const std::string &)> onText;
  std::function<void()> onCloseHook;
  bool open(std::size_t maxMsg, std::string &why)
  {
    std::uint16_t port = 0;
    lfd = listenEphemeral(port);
    if (lfd < 0)
    {
      why = "listen";
      return false;
    }
    cl = WebSocketClient::create();
    cl->setOnTextMessage(
      [this](const std::string &t)
      {
        if (Obs *o = curObs()) o->msg("t", (const std::uint8_t *)t.data(), t.size());
        if (onText) onText(t);
      });
    cl->setOnBinaryMessage(
      [](const Bytes &b)
      {
        if (Obs *o = curObs()) o->msg("b", b.data(), b.size());
      });
    cl->setOnClose(
      [this](std::uint16_t code, const std::string &)
      {
        if (Obs *o = curObs()) o->closedCb(code);
        if (onCloseHook) onCloseHook();
      });
    cl->setOnError(
      [](const std::string &)
      {
        if (Obs *o = curObs()) o->err();
      });
    std::string herr;
    std::thread peer(
      [&]
      {
        pollfd pf{lfd, POLLIN, 0};
        if (poll(&pf, 1, 30000) <= 0)
        {
          herr = "accept timeout";
          return;
        }
        fd = accept(lfd, nullptr, nullptr);
        if (fd < 0)
        {
          herr = "accept";
          return;
        }
        int one = 1;
        setsockopt(fd, IPPROTO_TCP, TCP_NODELAY, &one, sizeof one);
        Bytes rb;
        std::string head;
        for (;;)
        {
          head.assign(rb.begin(), rb.end());
          if (head.find("\r\n\r\n") != std::string::npos) break;
          if (readMore(fd, rb, 30000) <= 0)
          {
            herr = "no upgrade request";
            return;
          }
        }
        auto kp = head.find("Sec-WebSocket-Key:");
        if (kp == std::string::npos)
        {
          herr = "no key";
          return;
        }
        auto ke = head.find("\r\n", kp);
        std::string key = head.substr(kp + 18, ke - kp - 18);
        while (!key.empty() && key[0] == ' ') key.erase(0, 1);
        std::string resp = "HTTP/1.1 101 Switching Protocols\r\nUpgrade: websocket\r\nConnection: Upgrade\r\nSec-WebSocket-Accept: " +
                           acceptFor(key) + "\r\n\r\n";
        if (!sendAll(fd, resp.data(), resp.size())) herr = "send 101";
      });
    WebSocketClient::Options opt;
    hasMax = setClientMax(opt, maxMsg, 0);
    bool ok = cl->connect("127.0.0.1", port, "/ws", opt, std::chrono::milliseconds(30000));
    peer.join();
    if (!ok || !herr.empty())
    {
      why = ok ? herr : "client connect failed " + herr;
      return false;
    }
    return true;
  }
  void shut()
  {
    if (cl)
    {
      try
      {
        cl->disconnect();
      }
      catch (...)
      {
      }
      cl.reset();
    }
    if (fd >= 0) close(fd);
    if (lfd >= 0) close(lfd);
    fd = lfd = -1;
  }
};

static Bytes mkFrame(int op, const std::string &payload, bool masked)
{
  Bytes b;
  b.push_back((std::uint8_t)(0x80 | op));
  b.push_back((std::uint8_t)((masked ? 0x80 : 0) | payload.size()));
  std::uint8_t mk[4] = {0x11, 0x22, 0x33, 0x44};
  if (masked) b.insert(b.end(), mk, mk + 4);
  for (std::size_t i = 0; i < payload.size(); ++i) b.push_back((std::uint8_t)(payload[i] ^ (masked ? mk[i % 4] : 0)));
  return b;
}

