// Extra X09: iora::network::HttpClientPool / PooledHttpClient (client leases) and HttpClient's per-host ConnectionLease
// under the deterministic scheduler (virtual time).
//   drv_s_lease run <cases.txt> <out.ndjson> [parallel]
//   drv_s_lease dfs "<case head>" <preemption bound> <max executions> <out.ndjson> [parallel]
//   case:  pool <N> <timeoutMs> | a=g,r,c;b=g,tg,r,r;c=gt,r | random <seed> [au] [tp=<permille>]
//          host <H> <timeoutMs> | a=aA,r;b=aB,aA,r,r      | replay <plan...>  /  prefix <plan...>
//   pool ops: g = get()  gt = get(timeout)  tg = tryGet()  r = destroy the oldest lease  mv = oldest = std::move(newest)
//             c = close()  st = available()/inUse()  s<ms> = sleep
//   host ops: a<X> = acquireLease("<X>:80")  r = destroy the oldest lease  cl = cleanup()  s<ms> = sleep
//   (whatever a thread still holds at the end of its program is released, logged like r)
// Events: Begin{mode,n,tmo} Call{t,op,k} Ret{t,op,ok,r,el,why} Final{ids} End{outcome,stuck,drift}
//   k: host index of an acquire / the resource a release gives back (0 = nothing to release)
//   r: the granted resource (client id 1..N in construction order / host index); for st: r = available, el = inUse
//   el: virtual milliseconds that passed during the call
#include "iora/network/http_client_pool.hpp"
#include "vf/exec.hpp"
#include "vf/sched.hpp"
#include "vf/trace.hpp"

#include <algorithm>
#include <list>
#include <map>
#include <memory>
#include <random>
#include <set>

namespace iora
{
namespace verif
{
// friend of HttpClient under IORA_VERIF: reaches the private lease API
struct Access
{
  using Lease = network::HttpClient::ConnectionLease;
  static Lease acquire(network::HttpClient &c, const std::string &hostPort) { return c.acquireLease(hostPort); }
};
} // namespace verif
} // namespace iora
using iora::network::HttpClient;
using iora::network::HttpClientPool;
using iora::network::PooledHttpClient;
using iora::verif::Access;

struct ThreadProg
{
  std::string name;
  std::vector<std::string> ops;
};
struct Case
{
  std::string mode;
  int n = 1, tmo = 50;
  std::vector<ThreadProg> prog;
  vf::Options opt;
};

static long long vms() { return vf::virtualAdvanceNs() / 1000000LL; }

static std::string runOne(const Case &c, bool emitSched)
{
  auto tr = std::make_shared<vf::Trace>();
  tr->add(vf::Ev("Begin").str("mode", c.mode).i("n", c.n).i("tmo", c.tmo));
  const bool pool = c.mode == "pool";
  auto ids = std::make_shared<std::map<const HttpClient *, int>>();
  std::shared_ptr<HttpClientPool> P;
  std::shared_ptr<HttpClient> H;
  if (pool)
  {
    HttpClientPool::Config cfg;
    cfg.poolSize = (std::size_t)c.n;
    cfg.clientFactory = [ids]()
    {
      auto u = std::make_unique<HttpClient>();
      int id = (int)ids->size() + 1;
      (*ids)[u.get()] = id;
      return u;
    };
    P = std::make_shared<HttpClientPool>(cfg);
  }
  else
  {
    HttpClient::Config cfg;
    cfg.leaseAcquireTimeout = std::chrono::milliseconds(c.tmo);
    H = std::make_shared<HttpClient>(cfg);
  }
  const std::chrono::milliseconds tmo(c.tmo);
  vf::Options o = c.opt;
  o.maxSteps = 20000;
  o.earliestDeadlineFirst = true;
  vf::reset(o);
  for (auto &tp : c.prog)
  {
    vf::spawn(tp.name,
              [tr, P, H, ids, tp, pool, tmo]()
              {
                std::list<PooledHttpClient> pl;
                std::list<std::pair<int, Access::Lease>> hl;
                auto idOf = [&](PooledHttpClient &l)
                {
                  auto it = ids->find(&l.client());
                  return it == ids->end() ? -1 : it->second;
                };
                auto release = [&](const char *op)
                {
                  int k = 0;
                  if (pool)
                    k = pl.empty() ? 0 : idOf(pl.front());
                  else
                    k = hl.empty() ? 0 : hl.front().first;
                  tr->add(vf::Ev("Call").str("t", tp.name).str("op", op).i("k", k));
                  if (pool && !pl.empty()) pl.pop_front();
                  if (!pool && !hl.empty()) hl.pop_front();
                  tr->add(vf::Ev("Ret").str("t", tp.name).str("op", op).b("ok", true).i("r", 0).i("el", 0).str("why", "-"));
                };
                for (auto &op : tp.ops)
                {
                  vf::point("call");
                  if (op[0] == 's' && op != "st")
                  {
                    std::this_thread::sleep_for(std::chrono::milliseconds(atoi(op.c_str() + 1)));
                    continue;
                  }
                  if (op == "r")
                  {
                    release("rel");
                    continue;
                  }
                  long long t0 = vms();
                  bool ok = true;
                  int r = 0;
                  long long el = 0;
                  std::string why = "-", name = op;
                  if (pool)
                  {
                    if (op == "g" || op == "gt" || op == "tg")
                    {
                      name = op == "g" ? "get" : op == "gt" ? "getT" : "tryGet";
                      tr->add(vf::Ev("Call").str("t", tp.name).str("op", name).i("k", 0));
                      if (op == "g")
                      {
                        try
                        {
                          pl.push_back(P->get());
                        }
                        catch (const std::runtime_error &)
                        {
                          ok = false;
                        }
                      }
                      else
                      {
                        auto l = op == "gt" ? P->get(tmo) : P->tryGet();
                        if (l.has_value())
                          pl.push_back(std::move(*l));
                        else
                          ok = false;
                      }
                      if (ok) r = pl.back().isValid() ? idOf(pl.back()) : -2;
                    }
                    else if (op == "mv")
                    {
                      name = "mv";
                      int k = pl.size() >= 2 ? idOf(pl.front()) : 0;
                      tr->add(vf::Ev("Call").str("t", tp.name).str("op", name).i("k", k));
                      if (pl.size() >= 2)
                      {
                        pl.front() = std::move(pl.back()); // returns the front's client, takes over the back's
                        bool backValid = pl.back().isValid();
                        pl.pop_back();                     // moved-from: must not return anything
                        ok = !backValid && pl.front().isValid();
                      }
                    }
                    else if (op == "c")
                    {
                      name = "close";
                      tr->add(vf::Ev("Call").str("t", tp.name).str("op", name).i("k", 0));
                      P->close();
                    }
                    else if (op == "st")
                    {
                      name = "stat";
                      tr->add(vf::Ev("Call").str("t", tp.name).str("op", name).i("k", 0));
                      r = (int)P->available();
                      tr->add(vf::Ev("Ret").str("t", tp.name).str("op", name).b("ok", true).i("r", r).i("el", (long long)P->capacity() - r).str("why", "-"));
                      continue;
                    }
                  }
                  else
                  {
                    if (op[0] == 'a')
                    {
                      name = "acq";
                      int k = op[1] - 'A' + 1;
                      tr->add(vf::Ev("Call").str("t", tp.name).str("op", name).i("k", k));
                      try
                      {
                        hl.emplace_back(k, Access::acquire(*H, std::string(1, op[1]) + ":80"));
                        r = k;
                      }
                      catch (const std::runtime_error &e)
                      {
                        ok = false;
                        std::string m = e.what();
                        why = m.find("timed out") != std::string::npos ? "timeout" : m.find("shutting down") != std::string::npos ? "closing" : "other";
                      }
                    }
                    else if (op == "cl")
                    {
                      name = "cleanup";
                      tr->add(vf::Ev("Call").str("t", tp.name).str("op", name).i("k", 0));
                      H->cleanup();
                    }
                  }
                  el = vms() - t0;
                  tr->add(vf::Ev("Ret").str("t", tp.name).str("op", name).b("ok", ok).i("r", r).i("el", el).str("why", why));
                }
                while (pool ? !pl.empty() : !hl.empty())
                {
                  vf::point("call");
                  release("rel");
                }
              });
  }
  vf::Result res = vf::run();
  const char *oc = res.outcome == vf::Outcome::Done ? "done" : res.outcome == vf::Outcome::Stuck ? "stuck" : res.outcome == vf::Outcome::StepLimit ? "steplimit" : "external";
  if (pool && res.outcome == vf::Outcome::Done)
  {
    // every lease is back: what can be taken now is exactly what is available (duplicates or losses would show here)
    std::vector<int> got;
    std::list<PooledHttpClient> keep;
    for (int i = 0; i < c.n + 2; ++i)
    {
      auto l = P->tryGet();
      if (!l.has_value()) break;
      auto it = ids->find(&l->client());
      got.push_back(it == ids->end() ? -1 : it->second);
      keep.push_back(std::move(*l));
    }
    tr->add(vf::Ev("Final").ints("ids", got.begin(), got.end()).i("avail", (long long)P->available()));
  }
  std::vector<std::string> stuck;
  for (auto &s : res.stuck) stuck.push_back(s);
  tr->add(vf::Ev("End").str("outcome", oc).strs("stuck", stuck).b("drift", res.drift));
  std::string text = tr->text();
  if (emitSched)
  {
    std::string s = "#S";
    for (auto &st : res.steps)
    {
      s += " " + std::to_string(st.tid) + ":";
      for (size_t i = 0; i < st.enabled.size(); ++i) s += (i ? "," : "") + std::to_string(st.enabled[i]);
    }
    text += s + "\n";
  }
  if (res.outcome != vf::Outcome::Done)
  {
    // threads are still parked inside the objects: leave everything alive (the child process exits right after)
    new std::shared_ptr<HttpClientPool>(P);
    new std::shared_ptr<HttpClient>(H);
  }
  return text;
}

static bool parseHead(const std::string &head, const std::string &progText, Case &c)
{
  auto w = vf::words(head);
  if (w.size() < 3) return false;
  c.mode = w[0];
  c.n = atoi(w[1].c_str());
  c.tmo = atoi(w[2].c_str());
  std::string p;
  for (auto &x : vf::words(progText)) p += x;
  for (auto &pp : vf::split(p, ';'))
  {
    auto eq = pp.find('=');
    if (eq == std::string::npos) continue;
    ThreadProg tp;
    tp.name = pp.substr(0, eq);
    for (auto &x : vf::split(pp.substr(eq + 1), ','))
      if (!x.empty()) tp.ops.push_back(x);
    c.prog.push_back(tp);
  }
  return !c.prog.empty();
}

static int cmdRun(int argc, char **argv)
{
  if (argc < 4) return 2;
  auto lines = vf::readLines(argv[2]);
  int par = argc > 4 ? atoi(argv[4]) : 8;
  std::vector<Case> cases;
  for (auto &ln : lines)
  {
    auto parts = vf::split(ln, '|');
    if (parts.size() < 3) continue;
    Case c;
    if (!parseHead(parts[0], parts[1], c)) continue;
    auto w = vf::words(parts[2]);
    if (w.empty()) continue;
    if (w[0] == "random")
    {
      c.opt.policy = vf::Policy::Random;
      c.opt.seed = w.size() > 1 ? strtoull(w[1].c_str(), nullptr, 10) : 1;
      for (size_t i = 2; i < w.size(); ++i)
      {
        if (w[i] == "au") c.opt.pointAfterUnlock = true;
        if (w[i].rfind("tp=", 0) == 0)
        {
          c.opt.timeoutsOnlyWhenIdle = false;
          c.opt.timeoutPermille = atoi(w[i].c_str() + 3);
        }
      }
    }
    else
    {
      c.opt.policy = w[0] == "prefix" ? vf::Policy::Prefix : vf::Policy::Replay;
      c.opt.plan.assign(w.begin() + 1, w.end());
    }
    cases.push_back(std::move(c));
  }
  auto res = vf::runMany((int)cases.size(), par, 60.0, std::string(argv[3]) + ".d", argv[3], [&](int i) { return runOne(cases[i], false); });
  printf("executions=%d crashed=%d timedout=%d\n", res.executions, res.crashed, res.timedOut);
  return 0;
}

// Stateless DFS with a preemption bound over the schedules of the real objects (same algorithm as drv_bq.cpp).
static int cmdDfs(int argc, char **argv)
{
  if (argc < 6) return 2;
  auto parts = vf::split(argv[2], '|');
  Case base;
  if (parts.size() < 2 || !parseHead(parts[0], parts[1], base)) return 2;
  int bound = atoi(argv[3]);
  int maxExec = atoi(argv[4]);
  std::string outPath = argv[5];
  int par = argc > 6 ? atoi(argv[6]) : 8;
  struct Node
  {
    std::vector<int> prefix;
    int preemptions;
  };
  std::vector<Node> wave{{{}, 0}};
  std::set<std::vector<int>> seen;
  FILE *out = fopen(outPath.c_str(), "w");
  int total = 0;
  bool truncated = false;
  std::vector<std::string> nameOf;
  for (auto &tp : base.prog) nameOf.push_back(tp.name);
  while (!wave.empty() && total < maxExec)
  {
    if ((int)wave.size() > maxExec - total)
    {
      std::shuffle(wave.begin(), wave.end(), std::mt19937(12345u + (unsigned)total));
      wave.resize(maxExec - total);
      truncated = true;
    }
    std::string tmp = outPath + ".wave";
    vf::runMany((int)wave.size(), par, 60.0, outPath + ".d", tmp,
                [&](int i)
                {
                  Case c = base;
                  c.opt.policy = vf::Policy::Prefix;
                  for (int id : wave[i].prefix) c.opt.plan.push_back(nameOf[id]);
                  return runOne(c, true);
                });
    auto lines = vf::readLines(tmp);
    unlink(tmp.c_str());
    std::vector<Node> nextWave;
    int idx = 0;
    for (auto &ln : lines)
    {
      if (ln.rfind("#S", 0) == 0)
      {
        auto w = vf::words(ln.substr(2));
        std::vector<int> chosen;
        std::vector<std::vector<int>> en;
        for (auto &e : w)
        {
          auto cpos = e.find(':');
          chosen.push_back(atoi(e.substr(0, cpos).c_str()));
          std::vector<int> v;
          for (auto &x : vf::split(e.substr(cpos + 1), ','))
            if (!x.empty()) v.push_back(atoi(x.c_str()));
          en.push_back(v);
        }
        const Node &nd = wave[idx];
        int pre = 0;
        for (size_t k = 0; k < chosen.size(); ++k)
        {
          bool prevEnabled = false;
          if (k > 0)
            for (int x : en[k])
              if (x == chosen[k - 1]) prevEnabled = true;
          if (k >= nd.prefix.size())
          {
            for (int alt : en[k])
            {
              if (alt == chosen[k]) continue;
              int cost = pre + ((k > 0 && prevEnabled && alt != chosen[k - 1]) ? 1 : 0);
              if (cost > bound) continue;
              std::vector<int> p(chosen.begin(), chosen.begin() + k);
              p.push_back(alt);
              if (seen.insert(p).second) nextWave.push_back({p, cost});
            }
          }
          if (k > 0 && prevEnabled && chosen[k] != chosen[k - 1]) ++pre;
        }
        continue;
      }
      fprintf(out, "%s\n", ln.c_str());
      if (ln.find("\"e\":\"Reset\"") != std::string::npos) ++idx;
    }
    total += (int)wave.size();
    wave.swap(nextWave);
  }
  if (!wave.empty()) truncated = true;
  fclose(out);
  printf("executions=%d truncated=%d\n", total, truncated ? 1 : 0);
  return 0;
}

int main(int argc, char **argv)
{
  iora::core::Logger::setLevel(iora::core::Logger::Level::Fatal);
  if (argc < 2) return 2;
  std::string cmd = argv[1];
  if (cmd == "run") return cmdRun(argc, argv);
  if (cmd == "dfs") return cmdDfs(argc, argv);
  return 2;
}
