// X17 conformance driver: iora::parsers::Mustache::render (include/iora/parsers/mustache.hpp).
//
//   drv_mustache run <cases> <out.ndjson> <batch> <parallel> <setup>     forked workers (parsers_run.hpp)
// setup file (written by checks/X17.py from the tables TLC prints for spec/extra/MustacheData.tla):
//   D <hex of the JSON text of the data context>
//   P <partial name> <hex of its source | ->
// case lines:   T <resolver 0|1> <lexeme names joined by ','| -> <hex of the template text | ->
// events (judged by spec/extra/MustacheTrace.tla):
//   Render {lex,res,tmpl,ok,exc,out,calls,mut,again}
// The template is handed over as a string_view on an exact-size heap block (ASan sees any over-read of the tokenizer).
#include "iora/parsers/mustache.hpp"
#include "parsers_run.hpp"
#include "vf/exec.hpp"
#include "vf/trace.hpp"
#include <cstring>
#include <map>
#include <memory>

using iora::parsers::Json;
using iora::parsers::Mustache;
using iora::parsers::MustacheError;

static std::string unhex(const std::string &h)
{
  std::string o;
  if (h == "-") return o;
  auto v = [](char c) { return c <= '9' ? c - '0' : (c | 32) - 'a' + 10; };
  for (size_t i = 0; i + 1 < h.size(); i += 2) o += (char)(v(h[i]) * 16 + v(h[i + 1]));
  return o;
}

static std::string g_dataText;
static std::map<std::string, std::string> g_partials;

struct Outcome
{
  bool ok = false;
  std::string exc = "none", out;
  std::vector<std::string> calls;
  bool operator==(const Outcome &o) const { return ok == o.ok && exc == o.exc && out == o.out && calls == o.calls; }
};

static Outcome renderOnce(std::string_view tmpl, const Json &data, bool withResolver)
{
  Outcome r;
  iora::parsers::PartialResolver resolver;
  if (withResolver)
    resolver = [&r](std::string_view name) -> std::optional<std::string>
    {
      r.calls.emplace_back(name);
      auto it = g_partials.find(std::string(name));
      if (it == g_partials.end()) return std::nullopt;
      return it->second;
    };
  try
  {
    r.out = Mustache::render(tmpl, data, resolver);
    r.ok = true;
  }
  catch (const MustacheError &)
  {
    r.exc = "mustache";
  }
  catch (...)
  {
    r.exc = "other";
  }
  if (!r.ok) r.out.clear();
  return r;
}

static std::string runCase(const std::string &line)
{
  auto w = vf::words(line);
  if (w.size() < 4 || w[0] != "T") return "";
  bool res = w[1] == "1";
  std::vector<std::string> lex;
  if (w[2] != "-") lex = vf::split(w[2], ',');
  std::string tmpl = unhex(w[3]);
  std::unique_ptr<char[]> blk(new char[tmpl.size()]);
  if (!tmpl.empty()) memcpy(blk.get(), tmpl.data(), tmpl.size());
  std::string_view sv(blk.get(), tmpl.size());
  Json data = Json::parseOrThrow(g_dataText);
  const std::string before = data.dump();
  Outcome a = renderOnce(sv, data, res);
  Outcome b = renderOnce(sv, data, res);
  bool mut = data.dump() != before;
  return vf::Ev("Render").strs("lex", lex).b("res", res).str("tmpl", tmpl).b("ok", a.ok).str("exc", a.exc).str("out", a.out)
           .strs("calls", a.calls).b("mut", mut).b("again", a == b).done() + "\n";
}

int main(int argc, char **argv)
{
  if (argc >= 7 && std::string(argv[1]) == "run")
  {
    for (auto &ln : vf::readLines(argv[6]))
    {
      auto w = vf::words(ln);
      if (w.size() >= 2 && w[0] == "D") g_dataText = unhex(w[1]);
      if (w.size() >= 3 && w[0] == "P") g_partials[w[1]] = unhex(w[2]);
    }
    try
    {
      Json probe = Json::parseOrThrow(g_dataText);
      if (!probe.isObject()) throw std::runtime_error("data context is not an object");
    }
    catch (const std::exception &e)
    {
      fprintf(stderr, "drv_mustache: bad data context: %s\n", e.what());
      return 2;
    }
    auto lines = vf::readLines(argv[2]);
    int batch = atoi(argv[4]), par = atoi(argv[5]);
    if (batch <= 0) batch = 1;
    auto r = vfp::runResilient((int)lines.size(), batch, par, 30.0, argv[3], [&](int k) { return runCase(lines[k]); });
    printf("cases=%d crashed=%d hung=%d workers=%d\n", r.cases, r.crashed, r.hung, r.workers);
    return 0;
  }
  fprintf(stderr, "usage: drv_mustache run <cases> <out> <batch> <parallel> <setup>\n");
  return 2;
}
