// X23 (extra): iora::core::MetricsRegistry / Counter / Gauge / Histogram under the deterministic scheduler.
//   drv_s_metrics run <cases.txt> <out.ndjson> [parallel]
//   drv_s_metrics dfs "<case line without schedule>" <preemption bound> <max executions> <out.ndjson> [parallel]
//   case:  <maxSeries> | a=c:1:2:0,h:2:3;b=rd | random <seed> / replay ... / prefix ...
//   thread ops (k = metric name "k<k>", every record goes through the registry's get-or-create lookup):
//     c:k:n:lo   counter(k, labels {a=1,b=2} given in order lo).increment(uint64 n)
//     cd:k:n     counter(k, ...).increment(double n)             (the fractional / CAS path)
//     g:k:v      gauge(k).set(v)          gi:k:v  gauge(k).increment(v) (v < 0: decrement(-v))
//     h:k:v      histogram(k, {}, {3, 1}).observe(v)              (boundaries given unsorted)
//     rd         snapshotJson(), parsed: one Series event per exported series
// Events: Begin{max} Call{t,op,k,v,lo} Ret{t,op,r} Series{t,k,ty,v,le,b,sum,n} Ret{t,op:"rd",n} End{outcome,..}
//   r: "ok" | "conflict" (logic_error) | "limit" (runtime_error) | "other"
#include "iora/core/metrics.hpp"
#include "drv_xcore.hpp"

#include <cmath>
#include <cstring>
#include <memory>
#include <thread>

// vtable anchor, defined in src/core/iora_core.cpp for the library build
iora::core::MetricBase::~MetricBase() = default;

using namespace iora::core;
static vf::Trace *g_tr = nullptr;

static Labels labelsIn(int lo)
{
  if (lo) return Labels{{"b", "2"}, {"a", "1"}};
  return Labels{{"a", "1"}, {"b", "2"}};
}
static std::string nameOf(int k) { return "k" + std::to_string(k); }

static long long numAfter(const std::string &s, size_t from, const char *tag, size_t *endPos = nullptr)
{
  size_t p = s.find(tag, from);
  if (p == std::string::npos) return -999999;
  p += strlen(tag);
  if (p < s.size() && s[p] == '"') ++p;
  char *e = nullptr;
  double d = strtod(s.c_str() + p, &e);
  if (endPos) *endPos = (size_t)(e - s.c_str());
  if (e == s.c_str() + p) return -999998;
  if (std::isinf(d) || std::isnan(d)) return 1000000;
  return llround(d);
}

static int readAll(MetricsRegistry &reg, const std::string &t)
{
  std::string js = reg.snapshotJson();
  size_t gpos = js.find("\"gauges\":["), hpos = js.find("\"histograms\":[");
  int n = 0;
  for (size_t p = js.find("{\"name\":\"k"); p != std::string::npos; p = js.find("{\"name\":\"k", p + 1))
  {
    int k = atoi(js.c_str() + p + 10);
    const char *ty = p < gpos ? "counter" : p < hpos ? "gauge" : "hist";
    vf::Ev e("Series");
    e.str("t", t).i("k", k).str("ty", ty);
    if (p < hpos)
      e.i("v", numAfter(js, p, "\"value\":"));
    else
    {
      std::vector<long long> le, b;
      size_t q = js.find("\"buckets\":[", p), end = js.find("]", q);
      while (true)
      {
        size_t x = js.find("{\"le\":", q);
        if (x == std::string::npos || x > end) break;
        le.push_back(numAfter(js, x, "\"le\":"));
        b.push_back(numAfter(js, x, "\"count\":", &q));
      }
      e.ints("le", le.begin(), le.end()).ints("b", b.begin(), b.end());
      e.i("sum", numAfter(js, end, "\"sum\":")).i("n", numAfter(js, end, "\"count\":"));
    }
    g_tr->add(e);
    ++n;
  }
  return n;
}

static void runOp(MetricsRegistry &reg, const std::string &t, const xc::Op &op)
{
  int k = op.arg(0), v = op.arg(1), lo = op.arg(2);
  if (op.op == "rd")
  {
    g_tr->add(vf::Ev("Call").str("t", t).str("op", "rd"));
    int n = readAll(reg, t);
    g_tr->add(vf::Ev("Ret").str("t", t).str("op", "rd").i("n", n));
    return;
  }
  g_tr->add(vf::Ev("Call").str("t", t).str("op", op.op).i("k", k).i("v", v).i("lo", lo));
  const char *r = "ok";
  try
  {
    if (op.op == "c")
      reg.counter(nameOf(k), labelsIn(lo), "help").increment((std::uint64_t)v);
    else if (op.op == "cd")
      reg.counter(nameOf(k), labelsIn(lo)).increment((double)v);
    else if (op.op == "g")
      reg.gauge(nameOf(k), labelsIn(0)).set((double)v);
    else if (op.op == "gi")
    {
      auto &g = reg.gauge(nameOf(k), labelsIn(0));
      if (v < 0)
        g.decrement((double)-v);
      else
        g.increment((double)v);
    }
    else if (op.op == "h")
      reg.histogram(nameOf(k), labelsIn(0), {3.0, 1.0}).observe((double)v);
    else
      r = "other";
  }
  catch (const std::logic_error &)
  {
    r = "conflict";
  }
  catch (const std::runtime_error &)
  {
    r = "limit";
  }
  catch (...)
  {
    r = "other";
  }
  g_tr->add(vf::Ev("Ret").str("t", t).str("op", op.op).str("r", r));
}

struct Case
{
  int max = 100;
  std::vector<xc::ThreadProg> prog;
  vf::Options opt;
};

static std::string runOne(const Case &c, const vf::Options &opt, bool emitSched)
{
  auto tr = std::make_shared<vf::Trace>();
  g_tr = tr.get();
  tr->add(vf::Ev("Begin").i("max", c.max));
  vf::Options o = opt;
  o.maxSteps = 20000;
  vf::reset(o);
  vf::spawn("main",
            [tr, &c]()
            {
              vf::point("start");
              auto reg = std::make_unique<MetricsRegistry>();
              reg->setMaxSeries((std::size_t)c.max);
              std::vector<std::thread> th;
              for (size_t i = 0; i < c.prog.size(); ++i)
              {
                vf::nameNextChild(c.prog[i].name);
                th.emplace_back(
                  [&c, &reg, i]()
                  {
                    for (auto &op : c.prog[i].ops)
                    {
                      vf::point("call");
                      runOp(*reg, c.prog[i].name, op);
                    }
                    vf::point("call");
                  });
              }
              for (auto &t : th) t.join();
              vf::point("teardown");
              xc::Op rd;
              rd.op = "rd";
              runOp(*reg, "main", rd); // the exported totals once every recorder is done
            });
  vf::Result r = vf::run();
  tr->add(xc::endEvent(r));
  std::string text = tr->text();
  if (emitSched) text += xc::schedLine(r);
  return text;
}

static bool parseCase(const std::string &ln, Case &c, bool withSched)
{
  auto parts = vf::split(ln, '|');
  if (parts.size() < (withSched ? 3u : 2u)) return false;
  auto w = vf::words(parts[0]);
  if (w.empty()) return false;
  c.max = atoi(w[0].c_str());
  c.prog = xc::parseProg(parts[1]);
  if (withSched) c.opt = xc::parseSched(parts[2]);
  return true;
}

int main(int argc, char **argv)
{
  if (argc < 3) return 2;
  std::string cmd = argv[1];
  if (cmd == "run" && argc >= 4)
  {
    std::vector<Case> cases;
    for (auto &ln : vf::readLines(argv[2]))
    {
      Case c;
      if (parseCase(ln, c, true)) cases.push_back(std::move(c));
    }
    int par = argc > 4 ? atoi(argv[4]) : 8;
    auto res = vf::runMany((int)cases.size(), par, 60.0, std::string(argv[3]) + ".d", argv[3], [&](int i) { return runOne(cases[i], cases[i].opt, false); });
    printf("executions=%d crashed=%d timedout=%d\n", res.executions, res.crashed, res.timedOut);
    return 0;
  }
  if (cmd == "dfs" && argc >= 6)
  {
    Case c;
    if (!parseCase(argv[2], c, false)) return 2;
    return xc::dfs([&](const vf::Options &o, bool s) { return runOne(c, o, s); }, atoi(argv[3]), atoi(argv[4]), argv[5], argc > 6 ? atoi(argv[6]) : 8);
  }
  return 2;
}
