// C04, real TcpEngine: connectSync / connectSyncCancellable against targets that accept, refuse, black-hole (a listen(fd,0)
// socket whose backlog is full: further SYNs stay unanswered on loopback) and reset right after accepting.
//   drv_connectreal run <cases.txt> <out.ndjson> [parallel]
//   case: <ops>      ops (comma separated; calls separated by '+' inside par:... run concurrently on their own threads)
//      call:<kind>:<timeoutMs>         kind: accept | refused | blackhole | reset | cancel (black hole, cancelled after 40% of the timeout)
//      par:call:..+call:..+call:..     concurrent callers
// Events: Begin  ConnCall{c,kind,to}  ConnRet{c,ok,s,err,ms,live}  Global{cb,s}  PeerSaw{c,accepted,closed}  End{g,open}
//   ms = steady-clock milliseconds the call took (one clock, one thread); live = bytes sent on the returned session reached
//   the peer; g = engine gauge of open sessions 1.5 s after the last call returned; open = connections the black-hole /
//   accepting peers still see open at that time.
#include "iora/network/transport.hpp"
#include "iora/network/transport_impl.hpp"
#include "vf/exec.hpp"
#include "vf/trace.hpp"

#include <arpa/inet.h>
#include <fcntl.h>
#include <netinet/in.h>
#include <poll.h>
#include <sys/socket.h>
#include <thread>
#include <unistd.h>

using namespace iora::network;
using Clock = std::chrono::steady_clock;

// ---- fault/pause plan at the system-call boundary: stall the I/O thread inside its next getpeername() --------------------
// (the call the engine makes to decide that a non-blocking connect has completed; defined here = symbol interposition).
// With a short engine connectTimeout the connect timer then fires WHILE the completion is being decided, and its Close
// command is processed right after the session became established: the engine must recognise it as stale.
#include <dlfcn.h>
static std::atomic<int> g_stallGpMs{0};
extern "C" int getpeername(int fd, struct sockaddr *addr, socklen_t *len)
{
  static auto real = (int (*)(int, struct sockaddr *, socklen_t *))dlsym(RTLD_NEXT, "getpeername");
  int ms = g_stallGpMs.exchange(0);
  if (ms > 0)
  {
    struct timespec ts = {ms / 1000, (long)(ms % 1000) * 1000000L};
    nanosleep(&ts, nullptr);
  }
  return real(fd, addr, len);
}

static int listenOn(std::uint16_t &port, int backlog)
{
  int fd = socket(AF_INET, SOCK_STREAM, 0);
  int one = 1;
  setsockopt(fd, SOL_SOCKET, SO_REUSEADDR, &one, sizeof one);
  sockaddr_in sa{};
  sa.sin_family = AF_INET;
  inet_pton(AF_INET, "127.0.0.1", &sa.sin_addr);
  bind(fd, (sockaddr *)&sa, sizeof sa);
  listen(fd, backlog);
  socklen_t sl = sizeof sa;
  getsockname(fd, (sockaddr *)&sa, &sl);
  port = ntohs(sa.sin_port);
  return fd;
}

struct Targets
{
  int acceptFd = -1, holeFd = -1, resetFd = -1;
  std::uint16_t acceptPort = 0, holePort = 0, refusedPort = 0, resetPort = 0;
  std::vector<int> fillers;
  std::atomic<bool> quit{false};
  std::atomic<int> accepted{0}, sawData{0}, sawClose{0};
  std::thread acceptor;
};

static std::string runOne(const std::vector<std::string> &ops)
{
  iora::core::Logger::setLevel(iora::core::Logger::Level::Fatal);
  vf::Trace tr;
  tr.add(vf::Ev("Begin"));
  Targets tg;
  tg.acceptFd = listenOn(tg.acceptPort, 64);
  tg.resetFd = listenOn(tg.resetPort, 64);
  tg.holeFd = listenOn(tg.holePort, 0);
  {
    // fill the black hole's accept queue (never accepted): further connects get no answer
    for (int i = 0; i < 3; ++i)
    {
      int f = socket(AF_INET, SOCK_STREAM | SOCK_NONBLOCK, 0);
      sockaddr_in sa{};
      sa.sin_family = AF_INET;
      sa.sin_port = htons(tg.holePort);
      inet_pton(AF_INET, "127.0.0.1", &sa.sin_addr);
      connect(f, (sockaddr *)&sa, sizeof sa);
      tg.fillers.push_back(f);
    }
    std::uint16_t p;
    int f = listenOn(p, 1);
    tg.refusedPort = p;
    close(f);
  }
  std::this_thread::sleep_for(std::chrono::milliseconds(50));
  // the accepting / resetting peer: accepts, counts, reads (data => live), notices closes
  tg.acceptor = std::thread(
    [&tg]
    {
      std::vector<int> conns;
      while (!tg.quit.load())
      {
        std::vector<pollfd> p;
        p.push_back({tg.acceptFd, POLLIN, 0});
        p.push_back({tg.resetFd, POLLIN, 0});
        for (int c : conns) p.push_back({c, POLLIN, 0});
        poll(p.data(), p.size(), 20);
        if (p[0].revents & POLLIN)
        {
          int c = accept(tg.acceptFd, nullptr, nullptr);
          if (c >= 0)
          {
            conns.push_back(c);
            ++tg.accepted;
          }
        }
        if (p[1].revents & POLLIN)
        {
          int c = accept(tg.resetFd, nullptr, nullptr);
          if (c >= 0)
          {
            linger lg{1, 0};
            setsockopt(c, SOL_SOCKET, SO_LINGER, &lg, sizeof lg);
            close(c); // RST right after the handshake
          }
        }
        for (size_t i = 2; i < p.size(); ++i)
          if (p[i].revents & (POLLIN | POLLHUP | POLLERR))
          {
            char buf[256];
            ssize_t n = read(p[i].fd, buf, sizeof buf);
            if (n > 0)
              ++tg.sawData;
            else
            {
              ++tg.sawClose;
              close(p[i].fd);
              conns.erase(std::find(conns.begin(), conns.end(), p[i].fd));
              break;
            }
          }
      }
      for (int c : conns) close(c);
    });
  TransportConfig cfg;
  for (auto &o : ops)
    if (o.rfind("ct:", 0) == 0) cfg.connectTimeout = std::chrono::milliseconds(atoi(o.c_str() + 3)); // engine connect timer
  auto t = Transport::tcp(cfg);
  t->onConnect([&](SessionId s, const TransportAddress &) { tr.add(vf::Ev("Global").str("cb", "connect").i("s", (long long)s)); });
  t->onClose([&](SessionId s, const TransportErrorInfo &) { tr.add(vf::Ev("Global").str("cb", "close").i("s", (long long)s)); });
  t->onData([&](SessionId, iora::core::BufferView, std::chrono::steady_clock::time_point) {});
  if (!t->start().isOk()) return tr.text() + "{\"e\":\"SetupFailed\"}\n";
  std::atomic<int> callNo{0};
  auto doCall = [&](const std::string &kind, int to)
  {
    int c = ++callNo;
    std::uint16_t port = kind == "accept" ? tg.acceptPort : kind == "refused" ? tg.refusedPort : kind == "reset" ? tg.resetPort : tg.holePort;
    tr.add(vf::Ev("ConnCall").i("c", c).str("kind", kind).i("to", to));
    auto t0 = Clock::now();
    ConnectResult r = ConnectResult::err(TransportErrorInfo{});
    if (kind == "cancel")
    {
      CancellationToken tok;
      std::thread canceller(
        [&]
        {
          std::this_thread::sleep_for(std::chrono::milliseconds(to * 4 / 10));
          tok.cancel();
        });
      r = t->connectSyncCancellable("127.0.0.1", port, tok, TlsMode::None, std::chrono::milliseconds(to));
      canceller.join();
    }
    else
      r = t->connectSync("127.0.0.1", port, TlsMode::None, std::chrono::milliseconds(to));
    long long ms = std::chrono::duration_cast<std::chrono::milliseconds>(Clock::now() - t0).count();
    bool live = false;
    if (r.isOk() && kind == "accept")
    {
      std::this_thread::sleep_for(std::chrono::milliseconds(60)); // (anything the engine still had queued for this session has run)
      int before = tg.sawData.load();
      std::uint8_t b[4] = {1, 2, 3, 4};
      t->send(r.value(), iora::core::BufferView{b, 4});
      for (int i = 0; i < 200 && tg.sawData.load() == before; ++i) std::this_thread::sleep_for(std::chrono::milliseconds(10));
      live = tg.sawData.load() > before;
    }
    const char *err = "-";
    if (!r.isOk())
    {
      switch (r.error().code)
      {
      case TransportError::Timeout: err = "Timeout"; break;
      case TransportError::Cancelled: err = "Cancelled"; break;
      case TransportError::ShuttingDown: err = "ShuttingDown"; break;
      default: err = "Error"; break;
      }
    }
    tr.add(vf::Ev("ConnRet").i("c", c).str("kind", kind).b("ok", r.isOk()).i("s", r.isOk() ? (long long)r.value() : 0).str("err", err).i("ms", ms).i("to", to).b("live", live));
  };
  for (auto &o : ops)
  {
    if (o.rfind("ct:", 0) == 0) continue;
    if (o.rfind("stallgp:", 0) == 0)
    {
      g_stallGpMs = atoi(o.c_str() + 8);
      continue;
    }
    if (o.rfind("wait:", 0) == 0)
    {
      std::this_thread::sleep_for(std::chrono::milliseconds(atoi(o.c_str() + 5)));
      continue;
    }
    if (o.rfind("par:", 0) == 0)
    {
      std::vector<std::thread> th;
      for (auto &c : vf::split(o.substr(4), '+'))
      {
        auto f = vf::split(c, ':');
        if (f.size() >= 3) th.emplace_back([&, f] { doCall(f[1], atoi(f[2].c_str())); });
      }
      for (auto &x : th) x.join();
    }
    else
    {
      auto f = vf::split(o, ':');
      if (f.size() >= 3) doCall(f[1], atoi(f[2].c_str()));
    }
  }
  // a timed-out or cancelled attempt leaves no open connection behind: give the engine time to close them
  std::this_thread::sleep_for(std::chrono::milliseconds(1500));
  long long g = (long long)t->getStats().sessionsCurrent;
  int okLive = 0;
  (void)okLive;
  tr.add(vf::Ev("Settled").i("g", g).i("accepted", tg.accepted.load()).i("closedSeen", tg.sawClose.load()));
  t->stop();
  tr.add(vf::Ev("End").i("g", (long long)t->getStats().sessionsCurrent));
  tg.quit = true;
  tg.acceptor.join();
  close(tg.acceptFd);
  close(tg.resetFd);
  close(tg.holeFd);
  for (int f : tg.fillers) close(f);
  return tr.text();
}

int main(int argc, char **argv)
{
  if (argc < 4 || std::string(argv[1]) != "run") return 2;
  auto lines = vf::readLines(argv[2]);
  int par = argc > 4 ? atoi(argv[4]) : 4;
  std::vector<std::vector<std::string>> cases;
  for (auto &ln : lines)
  {
    std::string p;
    for (auto &x : vf::words(ln)) p += x;
    cases.push_back(vf::split(p, ','));
  }
  auto res = vf::runMany((int)cases.size(), par, 120.0, std::string(argv[3]) + ".d", argv[3], [&](int i) { return runOne(cases[i]); });
  printf("executions=%d crashed=%d timedout=%d\n", res.executions, res.crashed, res.timedOut);
  return 0;
}
