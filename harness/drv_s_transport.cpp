// C02 (fan-out) / C03 / C04 / C05 conformance driver: the real iora::network::Transport (Transport::Impl) on top of a
// SCRIPTED engine injected through the repository's own seam (tests/network/transport_test_seam.hpp), everything under
// the deterministic scheduler with virtual time.  The engine's I/O thread is a scheduled thread ("io") that executes the
// engine events of the case; application threads execute API calls.
//
//   drv_s_transport run <cases.txt> <out.ndjson> [parallel]
//   drv_s_transport dfs "<cfg> | <prog>" <preemption bound> <max executions> <out.ndjson> [parallel]
//     case: <syncCap> | <prog> | random <seed> | replay <plan> | prefix <plan>
//     prog: io=<engine ops> ; main=<ops> ; a=<ops> ; b=<ops>          (main starts the transport and spawns a, b, ..)
//       engine ops (I/O thread, in order):
//          accept:<sid>   data:<sid>:<n>[:dis]   close:<sid>   connected:<k>   connfail:<k>  (k-th engine connect request)
//          waitflag:<f>   setflag:<f>     resetowner  (drop main's shared_ptr from inside this callback context)
//       application ops:
//          recv:<sid>:<buflen>:<timeoutMs>   mode:<sid>:<sync|async|disabled>   csync:<timeoutMs>   connect (async)
//          ccsync:<timeoutMs> (connectSyncCancellable with the case's token)   cancel (that token)
//          observe:<sid>:<tag>  unobserve:<tag>  setdata:<sid>:<tag>  close:<sid>  send:<sid>  listen
//          waitflag:<f>  setflag:<f>  sleep:<ms>  waitlast:<thread> (until that thread is in flight inside a gate-counted call)
//          waitparked:<thread> (until that thread is parked in a blocking call or done)
//          stop  destroy (main only; waits until every other application thread is parked in a blocking call or done)
//          join (main only: join the other application threads)
//   The engine processes Close commands (from Transport::close / connectSync's timeout path) between its scripted ops and
//   at idle, like the real command queue; stop() makes it skip the remaining ops, close every open session and exit.
//
// Events: Begin{cap}
//   ArriveCall{s,from,to,dis} ArriveRet{s}   Data{s,from,to,th,as}   EngClose{s,by}   CloseCall{s} CloseRet{s}
//   GlobalAccept{s,as} GlobalConnect{s,as} GlobalClose{s,as} Obs{s,tag,as} Cleanup{s,tag,as}
//   RecvCall{t,s,len,to,vt} RecvRet{t,s,res,from,to,vt}   ModeCall{t,s,m} ModeRet{t,s,ok}
//   ConnCall{t,to,vt} ConnRet{t,ok,s,err,vt}   AsyncConnRet{t,s}   EngConnReq{s}  EngConnected{s} EngConnFail{s}
//   ObserveRet{t,s,tag} UnobserveCall{t,tag} UnobserveRet{t,tag,ok} SetDataRet{t,s,tag}
//   LifeCall{t,op,cb} LifeRet{t,op}   End{outcome,stuck}
#include "iora/network/transport.hpp"
#include "iora/network/transport_impl.hpp"
#include "tests/network/transport_test_seam.hpp"
#include "vf/exec.hpp"
#include "vf/sched.hpp"
#include "vf/trace.hpp"

#include <deque>
#include <map>
#include <algorithm>
#include <memory>
#include <random>
#include <set>

using namespace iora::network;

struct OpSpec
{
  std::vector<std::string> f;
};
struct ThreadProg
{
  std::string name;
  std::vector<OpSpec> ops;
};

static std::vector<ThreadProg> parseProg(const std::string &s)
{
  std::vector<ThreadProg> out;
  for (auto &part : vf::split(s, ';'))
  {
    std::string p;
    for (auto &x : vf::words(part)) p += x;
    if (p.empty()) continue;
    auto eq = p.find('=');
    ThreadProg tp;
    tp.name = p.substr(0, eq);
    if (eq != std::string::npos)
      for (auto &o : vf::split(p.substr(eq + 1), ','))
        if (!o.empty()) tp.ops.push_back({vf::split(o, ':')});
    out.push_back(tp);
  }
  return out;
}

struct World;

// ---- the scripted engine ---------------------------------------------------------------------------------------
struct ScriptEngine : detail::EngineBase
{
  World *w;
  Callbacks cbs;
  std::atomic<bool> running{false};
  std::atomic<bool> stopReq{false};
  // "atstop": the rest of the I/O thread's script is the remainder of the batch it is working through when stop() is called - the
  // real engines finish their current epoll batch after _running became false, i.e. they still deliver data / accepts / closes
  // AFTER a teardown fence went up and BEFORE the sessions are closed
  std::atomic<bool> stopCalled{false}, lateArmed{false}, lateDone{false};
  std::thread io;
  std::thread::id ioId;
  std::atomic<bool> detached{false};
  std::function<void()> selfDestruct;
  // one thread runs at a time under the scheduler; the spin lock only protects against the unscheduled controller
  std::atomic_flag lk = ATOMIC_FLAG_INIT;
  std::deque<SessionId> closeCmds;
  std::vector<SessionId> connReqs;
  std::set<SessionId> open;
  std::atomic<SessionId> next{100};

  explicit ScriptEngine(World *world) : w(world) {}
  void lock()
  {
    while (lk.test_and_set(std::memory_order_acquire))
    {
    }
  }
  void unlock() { lk.clear(std::memory_order_release); }

  StartResult start() override;
  std::mutex stopMutex; // as in the real engines: concurrent stop() calls are serialized (not on the I/O thread itself)
  void stop() override
  {
    std::unique_lock<std::mutex> sl(stopMutex, std::defer_lock);
    if (std::this_thread::get_id() != ioId) sl.lock();
    bool e = true;
    if (!running.compare_exchange_strong(e, false)) return;
    stopCalled = true;
    if (std::this_thread::get_id() != ioId)
      while (lateArmed.load() && !lateDone.load() && !detached.load()) sched_yield(); // the I/O thread finishes its batch
    stopReq = true;
    if (io.joinable() && !detached.load()) io.join();
  }
  ~ScriptEngine() override
  {
    if (io.joinable())
    {
      if (detached.load() || std::this_thread::get_id() == io.get_id())
        io.detach();
      else
      {
        stopReq = true;
        running = false;
        io.join();
      }
    }
  }
  bool isRunning() const override { return running.load(); }
  TransportErrorInfo lastError() const override { return {}; }
  ListenResult addListener(const std::string &, std::uint16_t, TlsMode) override
  {
    if (stopReq.load()) return ListenResult::err(TransportErrorInfo{TransportError::ShuttingDown, "stopped"});
    return ListenResult::ok(1);
  }
  ConnectResult connect(const std::string &, std::uint16_t, TlsMode) override;
  ConnectResult connectViaListener(ListenerId, const std::string &, std::uint16_t) override
  {
    return ConnectResult::err(TransportErrorInfo{TransportError::Config, "n/a"});
  }
  bool close(SessionId s) override;
  bool send(SessionId s, const void *, std::size_t) override
  {
    lock();
    bool ok = !stopReq.load() && open.count(s) > 0;
    unlock();
    return ok;
  }
  void sendAsync(SessionId s, const void *d, std::size_t n, SendCompleteCallback cb) override
  {
    bool ok = send(s, d, n);
    if (cb) cb(s, ok ? SendResult::ok(n) : SendResult::err(TransportErrorInfo{TransportError::Socket, "closed"}));
  }
  void setCallbacks(Callbacks c) override { cbs = std::move(c); }
  TransportStats getStats() const override { return {}; }
  TransportAddress getListenerAddress(ListenerId) const override { return {}; }
  TransportAddress getLocalAddress(SessionId) const override { return {}; }
  TransportAddress getRemoteAddress(SessionId) const override { return {}; }
  bool setDscp(SessionId, std::uint8_t) override { return true; }
  std::thread::id getIoThreadId() const override { return ioId; }
  void detachForTermination() override
  {
    running = false;
    stopReq = true;
    detached = true;
  }
  void scheduleSelfDestruct(std::function<void()> d) override { selfDestruct = std::move(d); }
};

struct World
{
  vf::Trace tr;
  std::shared_ptr<Transport> owner; // main's reference
  Transport *raw = nullptr;         // what the other threads use
  ScriptEngine *eng = nullptr;
  std::vector<ThreadProg> prog;
  std::map<std::string, std::atomic<bool>> flags;
  std::atomic<bool> stopReturned{false}; // set by a NON-callback caller right after stop()/destroy returned
  std::map<SessionId, long> nextByte;    // per session: id of the next byte the engine delivers
  std::map<std::string, ObserverId> obsIds;
  std::atomic<bool> destroyed{false};
  CancellationToken token;
  std::atomic<bool> armReset{false};
  std::atomic<bool> gcbDone{false}; // the next global close callback releases the (sole) owner from inside the callback
  long long vms() { return vf::virtualAdvanceNs() / 1000000LL; }
  // all flags are created before any thread starts (prepareFlags): afterwards the map is only read
  std::atomic<bool> &flag(const std::string &f) { return flags.find(f)->second; }
  // "__csync:<thread>": the thread is inside connectSync (set by the csync op around the call)
  bool inConnSync(const std::string &t)
  {
    auto it = flags.find("__csync:" + t);
    return it != flags.end() && it->second.load();
  }
  void prepareFlags()
  {
    for (auto &tp : prog)
      for (auto &o : tp.ops)
        if ((o.f[0] == "waitflag" || o.f[0] == "setflag") && o.f.size() > 1) flags[o.f[1]];
    // "__last:<thread>": the thread is INSIDE a Sync->Async flush (its setReadMode call is registered with the teardown gate
    // and is handing bytes to the data callback on this thread): the owner may destroy the transport while that call is
    // still in flight.  (A call that has merely begun is not safe to overlap: until it has registered itself under the lock
    // nothing can keep the object alive for it - that would be the caller's bug, not the library's.)
    for (auto &tp : prog) flags["__last:" + tp.name], flags["__csync:" + tp.name];
  }
  std::atomic_flag obsLock = ATOMIC_FLAG_INIT;
  void setObs(const std::string &tag, ObserverId id)
  {
    while (obsLock.test_and_set(std::memory_order_acquire))
    {
    }
    obsIds[tag] = id;
    obsLock.clear(std::memory_order_release);
  }
  bool getObs(const std::string &tag, ObserverId &id)
  {
    while (obsLock.test_and_set(std::memory_order_acquire))
    {
    }
    auto it = obsIds.find(tag);
    bool ok = it != obsIds.end();
    if (ok) id = it->second;
    obsLock.clear(std::memory_order_release);
    return ok;
  }
};

ConnectResult ScriptEngine::connect(const std::string &, std::uint16_t, TlsMode)
{
  if (stopReq.load()) return ConnectResult::err(TransportErrorInfo{TransportError::ShuttingDown, "stopped"});
  SessionId s = next++;
  lock();
  connReqs.push_back(s);
  open.insert(s); // a connecting session exists in the engine: a Close command closes it (with a close callback)
  unlock();
  w->tr.add(vf::Ev("EngConnReq").i("s", (long long)s).str("by", vf::selfName()));
  return ConnectResult::ok(s);
}

bool ScriptEngine::close(SessionId s)
{
  w->tr.add(vf::Ev("EngClose").i("s", (long long)s).str("by", vf::selfName()));
  {
    // an application thread that closes an attempt from inside connectSync's timeout path is registered with the teardown
    // gate (activeConnects) and begins no further call: the owner may destroy the transport while it is still in flight
    auto fl = w->flags.find(std::string("__last:") + vf::selfName());
    if (fl != w->flags.end() && w->inConnSync(vf::selfName())) fl->second.store(true);
  }
  if (stopReq.load()) return false;
  lock();
  closeCmds.push_back(s);
  unlock();
  return true;
}

static const char *errName(TransportError e)
{
  switch (e)
  {
  case TransportError::Timeout:
    return "Timeout";
  case TransportError::PeerClosed:
    return "PeerClosed";
  case TransportError::BufferOverflow:
    return "BufferOverflow";
  case TransportError::ShuttingDown:
    return "ShuttingDown";
  case TransportError::Cancelled:
    return "Cancelled";
  case TransportError::Connect:
    return "Connect";
  default:
    return "Other";
  }
}

static void ioLoop(World *w, ScriptEngine *e)
{
  const ThreadProg *p = nullptr;
  for (auto &tp : w->prog)
    if (tp.name == "io") p = &tp;
  auto fireClose = [&](SessionId s, TransportError why)
  {
    e->lock();
    bool wasOpen = e->open.erase(s) > 0;
    e->unlock();
    if (!wasOpen) return;
    w->tr.add(vf::Ev("CloseCall").i("s", (long long)s));
    e->cbs.onClose(s, TransportErrorInfo{why, "scripted"});
    if (e->detached.load()) return; // the owner was released inside the callback: touch nothing of the Impl any more
    w->tr.add(vf::Ev("CloseRet").i("s", (long long)s));
  };
  auto processCmds = [&]()
  {
    for (;;)
    {
      e->lock();
      if (e->closeCmds.empty())
      {
        e->unlock();
        return;
      }
      SessionId s = e->closeCmds.front();
      e->closeCmds.pop_front();
      e->unlock();
      fireClose(s, TransportError::Cancelled);
      if (e->detached.load()) return;
    }
  };
  size_t i = 0;
  while (!e->stopReq.load() && !e->detached.load())
  {
    vf::point("io");
    processCmds();
    if (e->stopReq.load() || e->detached.load()) break;
    if (!p || i >= p->ops.size())
    {
      if (e->lateArmed.load()) e->lateDone = true;
      sched_yield(); // idle: wait for commands / stop
      continue;
    }
    auto &f = p->ops[i].f;
    const std::string &op = f[0];
    if (op == "waitflag")
    {
      if (!w->flag(f[1]).load())
      {
        sched_yield();
        continue; // retry the same op
      }
      ++i;
      continue;
    }
    if (op == "atstop")
    {
      e->lateArmed = true;
      if (!e->stopCalled.load())
      {
        sched_yield();
        continue; // retry: the rest of the script runs once stop() has been called
      }
      ++i;
      continue;
    }
    ++i;
    if (op == "setflag")
      w->flag(f[1]).store(true);
    else if (op == "accept")
    {
      SessionId s = (SessionId)atoi(f[1].c_str());
      e->lock();
      e->open.insert(s);
      e->unlock();
      w->tr.add(vf::Ev("AcceptCall").i("s", (long long)s));
      e->cbs.onAccept(s, TransportAddress{});
    }
    else if (op == "data")
    {
      SessionId s = (SessionId)atoi(f[1].c_str());
      int n = atoi(f[2].c_str());
      bool dis = f.size() > 3 && f[3] == "dis";
      e->lock();
      bool isOpen = e->open.count(s) > 0;
      e->unlock();
      if (!isOpen) continue;
      long from = w->nextByte[s];
      w->nextByte[s] = from + n;
      std::vector<std::uint8_t> bytes(n);
      for (int k = 0; k < n; ++k) bytes[k] = (std::uint8_t)((from + k) & 0xff);
      w->tr.add(vf::Ev("ArriveCall").i("s", (long long)s).i("from", from).i("to", from + n).b("dis", dis));
      e->cbs.onData(s, iora::core::BufferView{bytes.data(), bytes.size()}, std::chrono::steady_clock::now());
      if (e->detached.load()) break;
      w->tr.add(vf::Ev("ArriveRet").i("s", (long long)s));
    }
    else if (op == "close")
      fireClose((SessionId)atoi(f[1].c_str()), TransportError::PeerClosed);
    else if (op == "connected" || op == "connfail")
    {
      size_t k = (size_t)atoi(f[1].c_str());
      e->lock();
      bool have = e->connReqs.size() >= k;
      SessionId s = have ? e->connReqs[k - 1] : 0;
      e->unlock();
      if (!have)
      {
        --i;
        sched_yield();
        continue;
      }
      e->lock();
      bool still = e->open.count(s) > 0;
      if (still && op == "connfail") e->open.erase(s);
      e->unlock();
      if (!still) continue; // already closed by a Close command
      if (op == "connected")
      {
        w->tr.add(vf::Ev("EngConnected").i("s", (long long)s));
        e->cbs.onConnect(s, TransportAddress{});
      }
      else
      {
        w->tr.add(vf::Ev("EngConnFail").i("s", (long long)s));
        w->tr.add(vf::Ev("CloseCall").i("s", (long long)s));
        e->cbs.onClose(s, TransportErrorInfo{TransportError::Connect, "refused"});
        w->tr.add(vf::Ev("CloseRet").i("s", (long long)s));
      }
    }
  }
  // shutdownDrain: close every open session (unless the owner was released from inside a callback: then the deferred
  // self-destruction below is all that is left to do)
  if (!e->detached.load())
  {
    processCmds();
    for (;;)
    {
      e->lock();
      if (e->open.empty())
      {
        e->unlock();
        break;
      }
      SessionId s = *e->open.begin();
      e->unlock();
      fireClose(s, TransportError::ShuttingDown);
      if (e->detached.load()) break;
    }
  }
  // post-loop epilogue: deferred self-destruction (deletes the Impl, which owns this engine) - touch nothing afterwards
  std::function<void()> sd = std::move(e->selfDestruct);
  if (sd) sd();
}

StartResult ScriptEngine::start()
{
  running = true;
  vf::nameNextChild("io");
  World *ww = w;
  io = std::thread([ww, this]() { ioLoop(ww, this); });
  ioId = io.get_id();
  return StartResult::ok();
}

// ---- application side ------------------------------------------------------------------------------------------
static void appOps(World *w, const ThreadProg &tp, std::vector<std::thread> *others);

// every payload byte carries its position in the session's stream: the maximal runs of consecutive positions in a buffer,
// flattened as from1,to1,from2,to2,... (a buffer that spans a dropped Disabled phase has more than one run)
static std::vector<long> runsOf(const std::uint8_t *p, std::size_t n)
{
  std::vector<long> r;
  for (std::size_t i = 0; i < n; ++i)
  {
    long b = p[i];
    if (!r.empty() && r.back() == b)
      r.back() = b + 1;
    else
    {
      r.push_back(b);
      r.push_back(b + 1);
    }
  }
  return r;
}

static void installCallbacks(World *w, Transport *t)
{
  t->onAccept([w](SessionId s, const TransportAddress &) { w->tr.add(vf::Ev("GlobalAccept").i("s", (long long)s).b("as", w->stopReturned.load())); });
  t->onConnect([w](SessionId s, const TransportAddress &) { w->tr.add(vf::Ev("GlobalConnect").i("s", (long long)s).b("as", w->stopReturned.load())); });
  t->onClose(
    [w](SessionId s, const TransportErrorInfo &)
    {
      w->tr.add(vf::Ev("GlobalClose").i("s", (long long)s).b("as", w->stopReturned.load()));
      // the program thread "gcb" (if any) is executed INSIDE the first global close callback, on the I/O thread
      bool first = false;
      if (w->gcbDone.compare_exchange_strong(first, true))
        for (auto &tp : w->prog)
          if (tp.name == "gcb") appOps(w, tp, nullptr);
      bool e = true;
      if (w->armReset.compare_exchange_strong(e, false))
      {
        // sole owner releases the transport inside its own close callback (I/O thread): deferred self-destruction
        w->tr.add(vf::Ev("LifeCall").str("t", "io").str("op", "destroy_in_cb").i("vt", w->vms()).i("uj", vf::unfairJumps()));
        w->owner.reset();
        w->tr.add(vf::Ev("LifeRet").str("t", "io").str("op", "destroy_in_cb"));
      }
    });
  t->onData(
    [w](SessionId s, iora::core::BufferView d, std::chrono::steady_clock::time_point)
    {
      auto runs = runsOf(d.data(), d.size());
      long from = runs.empty() ? 0 : runs.front(), to = runs.empty() ? 0 : runs.back();
      w->tr.add(vf::Ev("Data").i("s", (long long)s).i("from", from).i("to", to).ints("runs", runs.begin(), runs.end()).str("th", vf::selfName()).b("as", w->stopReturned.load()));
      auto fl = w->flags.find(std::string("__last:") + vf::selfName());
      if (fl != w->flags.end()) fl->second.store(true); // a flush on an application thread is under way
    });
}

static void appOps(World *w, const ThreadProg &tp, std::vector<std::thread> *others)
{
  Transport *t = w->raw;
  for (auto &o : tp.ops)
  {
    auto &f = o.f;
    const std::string &op = f[0];
    if (op == "waitflag")
    {
      while (!w->flag(f[1]).load()) sched_yield();
      continue;
    }
    if (op == "waitparked")
    {
      // until thread f[1] is parked inside a blocking call (or has finished): e.g. before the event that will destroy the
      // transport is released, so that the thread does not BEGIN its call on a dying object
      while (vf::threadPhase(f[1]) == 0) sched_yield();
      continue;
    }
    if (op == "waitlast")
    {
      // until thread f[1] is in flight inside a call that the teardown gate counts (a flush handing bytes over, or the
      // timeout path of connectSync closing its attempt) - or has finished without getting there
      while (!w->flag("__last:" + f[1]).load() && vf::threadPhase(f[1]) != 2) sched_yield();
      continue;
    }
    vf::point("call");
    if (op == "setflag")
      w->flag(f[1]).store(true);
    else if (op == "sleep")
      std::this_thread::sleep_for(std::chrono::milliseconds(atoi(f[1].c_str())));
    else if (op == "recv")
    {
      SessionId s = (SessionId)atoi(f[1].c_str());
      std::size_t len = (std::size_t)atoi(f[2].c_str());
      int to = atoi(f[3].c_str());
      std::vector<std::uint8_t> buf(len ? len : 1);
      w->tr.add(vf::Ev("RecvCall").str("t", tp.name).i("s", (long long)s).i("len", (long long)len).i("to", to).i("vt", w->vms()).i("uj", vf::unfairJumps()));
      auto r = t->receiveSync(s, buf.data(), len, std::chrono::milliseconds(to));
      if (r.isOk())
      {
        auto runs = runsOf(buf.data(), len);
        long from = runs.empty() ? 0 : runs.front(), to = runs.empty() ? 0 : runs.back();
        w->tr.add(vf::Ev("RecvRet").str("t", tp.name).i("s", (long long)s).str("res", "ok").i("from", from).i("to", to).ints("runs", runs.begin(), runs.end()).i("n", (long long)len).i("vt", w->vms()).i("uj", vf::unfairJumps()));
      }
      else
        w->tr.add(vf::Ev("RecvRet").str("t", tp.name).i("s", (long long)s).str("res", errName(r.error().code)).i("from", 0).i("to", 0).i("vt", w->vms()).i("uj", vf::unfairJumps()));
    }
    else if (op == "mode")
    {
      SessionId s = (SessionId)atoi(f[1].c_str());
      ReadMode m = f[2] == "sync" ? ReadMode::Sync : f[2] == "async" ? ReadMode::Async : ReadMode::Disabled;
      w->tr.add(vf::Ev("ModeCall").str("t", tp.name).i("s", (long long)s).str("m", f[2]));
      bool ok = t->setReadMode(s, m);
      w->tr.add(vf::Ev("ModeRet").str("t", tp.name).i("s", (long long)s).str("m", f[2]).b("ok", ok));
    }
    else if (op == "csync")
    {
      int to = atoi(f[1].c_str());
      w->tr.add(vf::Ev("ConnCall").str("t", tp.name).i("to", to).i("vt", w->vms()).i("uj", vf::unfairJumps()));
      auto cs = w->flags.find("__csync:" + tp.name);
      if (cs != w->flags.end()) cs->second.store(true);
      auto r = t->connectSync("127.0.0.1", 1, TlsMode::None, std::chrono::milliseconds(to));
      // (the flag is not cleared: after the call the thread either is done or - in programs without destruction - the
      // flag is not consulted)
      w->tr.add(vf::Ev("ConnRet").str("t", tp.name).b("ok", r.isOk()).i("s", r.isOk() ? (long long)r.value() : 0)
                  .str("err", r.isOk() ? "-" : errName(r.error().code)).i("vt", w->vms()).i("uj", vf::unfairJumps()));
    }
    else if (op == "ccsync")
    {
      // connectSyncCancellable with the world's token (sub-attempts of at most 100 ms each; "cancel" on another thread)
      int to = atoi(f[1].c_str());
      w->tr.add(vf::Ev("ConnCall").str("t", tp.name).i("to", to).i("vt", w->vms()).i("uj", vf::unfairJumps()));
      auto cs = w->flags.find("__csync:" + tp.name);
      if (cs != w->flags.end()) cs->second.store(true);
      auto r = t->connectSyncCancellable("127.0.0.1", 1, w->token, TlsMode::None, std::chrono::milliseconds(to));
      w->tr.add(vf::Ev("ConnRet").str("t", tp.name).b("ok", r.isOk()).i("s", r.isOk() ? (long long)r.value() : 0)
                  .str("err", r.isOk() ? "-" : errName(r.error().code)).i("vt", w->vms()).i("uj", vf::unfairJumps()));
    }
    else if (op == "cancel")
    {
      w->tr.add(vf::Ev("CancelCall").str("t", tp.name).i("vt", w->vms()));
      w->token.cancel();
    }
    else if (op == "connect")
    {
      auto r = t->connect("127.0.0.1", 1, TlsMode::None);
      w->tr.add(vf::Ev("AsyncConnRet").str("t", tp.name).i("s", r.isOk() ? (long long)r.value() : 0));
    }
    else if (op == "observe")
    {
      SessionId s = (SessionId)atoi(f[1].c_str());
      std::string tag = f[2];
      w->tr.add(vf::Ev("ObserveCall").str("t", tp.name).i("s", (long long)s).str("tag", tag));
      auto id = t->observe(s, [w, tag](SessionId sid, const TransportErrorInfo &)
                           { w->tr.add(vf::Ev("Obs").i("s", (long long)sid).str("tag", tag).b("as", w->stopReturned.load())); });
      w->setObs(tag, id);
      w->tr.add(vf::Ev("ObserveRet").str("t", tp.name).i("s", (long long)s).str("tag", tag));
    }
    else if (op == "unobserve")
    {
      ObserverId oid = 0;
      if (!w->getObs(f[1], oid)) continue;
      w->tr.add(vf::Ev("UnobserveCall").str("t", tp.name).str("tag", f[1]));
      bool ok = t->unobserve(oid);
      w->tr.add(vf::Ev("UnobserveRet").str("t", tp.name).str("tag", f[1]).b("ok", ok));
    }
    else if (op == "setdata")
    {
      SessionId s = (SessionId)atoi(f[1].c_str());
      auto *tag = new std::string(f[2]);
      w->tr.add(vf::Ev("SetDataCall").str("t", tp.name).i("s", (long long)s).str("tag", f[2]));
      t->setSessionData(s, tag,
                        [w, s](void *p)
                        {
                          auto *sp = static_cast<std::string *>(p);
                          w->tr.add(vf::Ev("Cleanup").i("s", (long long)s).str("tag", *sp).b("as", w->stopReturned.load()));
                          delete sp;
                        });
      w->tr.add(vf::Ev("SetDataRet").str("t", tp.name).i("s", (long long)s).str("tag", f[2]));
    }
    else if (op == "close")
      t->close((SessionId)atoi(f[1].c_str()));
    else if (op == "expectall")
      w->tr.add(vf::Ev("ExpectAll").i("s", (long long)atoi(f[1].c_str())));
    else if (op == "send")
    {
      std::uint8_t b = 1;
      bool ok = t->send((SessionId)atoi(f[1].c_str()), iora::core::BufferView{&b, 1});
      w->tr.add(vf::Ev("SendRet").str("t", tp.name).b("ok", ok));
    }
    else if (op == "listen")
    {
      auto r = t->addListener("127.0.0.1", 0, TlsMode::None);
      w->tr.add(vf::Ev("ListenRet").str("t", tp.name).b("ok", r.isOk()));
    }
    else if (op == "stop")
    {
      w->tr.add(vf::Ev("LifeCall").str("t", tp.name).str("op", "stop").i("vt", w->vms()).i("uj", vf::unfairJumps()));
      t->stop();
      w->stopReturned.store(true);
      w->tr.add(vf::Ev("LifeRet").str("t", tp.name).str("op", "stop"));
    }
    else if (op == "armreset" && others)
    {
      w->destroyed = true; // main gives the transport up: whoever runs the next close callback destroys it
      w->armReset = true;
    }
    else if (op == "join" && others)
    {
      for (auto &th : *others)
        if (th.joinable()) th.join();
    }
    else if (op == "destroy" && others)
    {
      // the other threads use a raw pointer: wait until each of them is parked inside a blocking call, is inside a flush that
      // the teardown gate counts (see prepareFlags) or is done
      for (;;)
      {
        bool allQuiet = true;
        for (auto &p : w->prog)
          if (p.name != "main" && p.name != "io" && p.name != "gcb" && vf::threadPhase(p.name) == 0 && !w->flag("__last:" + p.name).load())
            allQuiet = false;
        if (allQuiet) break;
        sched_yield();
      }
      w->tr.add(vf::Ev("LifeCall").str("t", tp.name).str("op", "destroy").i("vt", w->vms()).i("uj", vf::unfairJumps()));
      w->destroyed = true;
      w->owner.reset();
      w->stopReturned.store(true);
      w->tr.add(vf::Ev("LifeRet").str("t", tp.name).str("op", "destroy"));
    }
  }
}

static int g_gcThreshold = 0; // per case ("cap/gc" in the case line): Transport's syncBufferGcThreshold, 0 = library default

static std::string runOne(int cap, const std::vector<ThreadProg> &prog, const vf::Options &opt, bool emitSched)
{
  auto w = std::make_shared<World>();
  w->prog = prog;
  w->prepareFlags();
  w->tr.add(vf::Ev("Begin").i("cap", cap));
  vf::Options o = opt;
  o.maxSteps = 30000;
  o.pointAfterUnlock = true;
  o.earliestDeadlineFirst = true;
  vf::reset(o);
  vf::spawn("main",
            [w, cap]()
            {
              vf::point("construct");
              TransportConfig cfg;
              cfg.maxSyncReceiveBuffer = (std::size_t)cap;
              if (g_gcThreshold > 0) cfg.syncBufferGcThreshold = (std::size_t)g_gcThreshold;
              auto eng = std::make_unique<ScriptEngine>(w.get());
              w->eng = eng.get();
              w->owner = iora::network::test::TransportEngineInjector::withEngine(std::move(eng), cfg);
              w->raw = w->owner.get();
              installCallbacks(w.get(), w->raw);
              w->raw->start();
              std::vector<std::thread> others;
              const ThreadProg *mainProg = nullptr;
              for (auto &tp : w->prog)
              {
                if (tp.name == "io" || tp.name == "gcb") continue;
                if (tp.name == "main")
                {
                  mainProg = &tp;
                  continue;
                }
                vf::nameNextChild(tp.name);
                others.emplace_back([w, &tp]() { appOps(w.get(), tp, nullptr); });
              }
              if (mainProg) appOps(w.get(), *mainProg, &others);
              for (auto &th : others)
                if (th.joinable()) th.join();
              vf::point("call");
              if (!w->destroyed.load())
              {
                w->tr.add(vf::Ev("LifeCall").str("t", "main").str("op", "destroy").i("vt", w->vms()).i("uj", vf::unfairJumps()));
                w->owner.reset();
                w->stopReturned.store(true);
                w->tr.add(vf::Ev("LifeRet").str("t", "main").str("op", "destroy"));
              }
            });
  vf::Result r = vf::run();
  const char *oc = r.outcome == vf::Outcome::Done        ? "done"
                   : r.outcome == vf::Outcome::Stuck     ? "stuck"
                   : r.outcome == vf::Outcome::StepLimit ? "steplimit"
                                                         : "external";
  w->tr.add(vf::Ev("End").str("outcome", oc).strs("stuck", r.stuck).i("steps", (long long)r.steps.size()));
  std::string text = w->tr.text();
  if (emitSched)
  {
    std::string s = "#S";
    for (auto &st : r.steps)
    {
      s += " " + st.thread + ":";
      for (size_t i = 0; i < st.enabled.size(); ++i) s += (i ? "," : "") + std::to_string(st.enabled[i]);
      s += ":" + std::to_string(st.tid);
    }
    text += s + "\n";
  }
  return text;
}

static vf::Options parsePolicy(const std::vector<std::string> &w)
{
  vf::Options o;
  if (!w.empty() && (w[0] == "random" || w[0] == "randomt"))
  {
    o.policy = vf::Policy::Random;
    o.seed = w.size() > 1 ? strtoull(w[1].c_str(), nullptr, 10) : 1;
    if (w[0] == "randomt")
    {
      // the polling script thread and spinning waiters are "low priority" (a yield is a sleep with back-off): let them run
      // early now and then, so that e.g. the I/O thread delivers data in the middle of another thread's teardown
      o.timeoutsOnlyWhenIdle = false;
      o.timeoutPermille = 150;
    }
  }
  else if (!w.empty())
  {
    o.policy = w[0] == "prefix" ? vf::Policy::Prefix : vf::Policy::Replay;
    o.plan.assign(w.begin() + 1, w.end());
  }
  return o;
}

static int cmdRun(int argc, char **argv)
{
  auto lines = vf::readLines(argv[2]);
  int par = argc > 4 ? atoi(argv[4]) : 8;
  struct Case
  {
    int cap;
    int gc = 0;
    std::vector<ThreadProg> prog;
    vf::Options opt;
  };
  std::vector<Case> cases;
  for (auto &ln : lines)
  {
    auto parts = vf::split(ln, '|');
    if (parts.size() < 3) continue;
    Case c;
    c.cap = atoi(parts[0].c_str());
    c.gc = parts[0].find('/') != std::string::npos ? atoi(parts[0].substr(parts[0].find('/') + 1).c_str()) : 0;
    c.prog = parseProg(parts[1]);
    c.opt = parsePolicy(vf::words(parts[2]));
    cases.push_back(std::move(c));
  }
  auto res = vf::runMany((int)cases.size(), par, 60.0, std::string(argv[3]) + ".d", argv[3],
                         [&](int i)
                         {
                           g_gcThreshold = cases[i].gc;
                           return runOne(cases[i].cap, cases[i].prog, cases[i].opt, false);
                         });
  printf("executions=%d crashed=%d timedout=%d\n", res.executions, res.crashed, res.timedOut);
  return 0;
}

static int cmdDfs(int argc, char **argv)
{
  if (argc < 6) return 2;
  auto parts = vf::split(argv[2], '|');
  int cap = atoi(parts[0].c_str());
  g_gcThreshold = parts[0].find('/') != std::string::npos ? atoi(parts[0].substr(parts[0].find('/') + 1).c_str()) : 0;
  auto prog = parseProg(parts[1]);
  int bound = atoi(argv[3]);
  int maxExec = atoi(argv[4]);
  std::string outPath = argv[5];
  int par = argc > 6 ? atoi(argv[6]) : 8;
  struct Node
  {
    std::vector<std::string> prefix;
    int pre;
  };
  std::vector<Node> wave{{{}, 0}};
  std::set<std::vector<std::string>> seen;
  FILE *out = fopen(outPath.c_str(), "w");
  int total = 0;
  bool truncated = false;
  while (!wave.empty() && total < maxExec)
  {
    if ((int)wave.size() > maxExec - total)
    {
      // truncation keeps a seeded random sample of the frontier (not its first entries), so that late preemption points
      // are explored as often as early ones
      std::shuffle(wave.begin(), wave.end(), std::mt19937(12345u + (unsigned)total));
      wave.resize(maxExec - total);
      truncated = true;
    }
    std::string tmp = outPath + ".wave";
    vf::runMany((int)wave.size(), par, 60.0, outPath + ".d", tmp,
                [&](int i)
                {
                  vf::Options o;
                  o.policy = vf::Policy::Prefix;
                  o.plan = wave[i].prefix;
                  return runOne(cap, prog, o, true);
                });
    auto lines = vf::readLines(tmp);
    unlink(tmp.c_str());
    std::vector<Node> nextWave;
    int idx = 0;
    for (auto &ln : lines)
    {
      if (ln.rfind("#S", 0) == 0)
      {
        auto w = vf::words(ln.substr(2));
        std::vector<std::string> chosen;
        std::vector<int> chosenId;
        std::vector<std::vector<int>> en;
        std::map<int, std::string> nameOf;
        for (auto &e : w)
        {
          auto f = vf::split(e, ':');
          chosen.push_back(f[0]);
          std::vector<int> v;
          for (auto &x : vf::split(f[1], ','))
            if (!x.empty()) v.push_back(atoi(x.c_str()));
          en.push_back(v);
          int id = atoi(f[2].c_str());
          chosenId.push_back(id);
          nameOf[id] = f[0];
        }
        const Node &nd = wave[idx];
        int pre = 0;
        for (size_t k = 0; k < chosen.size(); ++k)
        {
          bool prevEnabled = false;
          if (k > 0)
            for (int x : en[k])
              if (x == chosenId[k - 1]) prevEnabled = true;
          if (k >= nd.prefix.size())
            for (int alt : en[k])
            {
              if (alt == chosenId[k] || !nameOf.count(alt)) continue;
              int cost = pre + ((k > 0 && prevEnabled && alt != chosenId[k - 1]) ? 1 : 0);
              if (cost > bound) continue;
              std::vector<std::string> p(chosen.begin(), chosen.begin() + k);
              p.push_back(nameOf[alt]);
              if (seen.insert(p).second) nextWave.push_back({p, cost});
            }
          if (k > 0 && prevEnabled && chosenId[k] != chosenId[k - 1]) ++pre;
        }
        continue;
      }
      fprintf(out, "%s\n", ln.c_str());
      if (ln.find("\"e\":\"Reset\"") != std::string::npos) ++idx;
    }
    total += (int)wave.size();
    wave.swap(nextWave);
  }
  if (!wave.empty()) truncated = true;
  fclose(out);
  printf("executions=%d truncated=%d\n", total, truncated ? 1 : 0);
  return 0;
}

int main(int argc, char **argv)
{
  iora::core::Logger::setLevel(iora::core::Logger::Level::Fatal);
  if (argc < 4) return 2;
  std::string cmd = argv[1];
  if (cmd == "run") return cmdRun(argc, argv);
  if (cmd == "dfs") return cmdDfs(argc, argv);
  return 2;
}
