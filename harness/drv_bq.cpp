// C10 conformance driver for iora::core::BlockingQueue under the deterministic scheduler (vf/sched).
//
//   drv_bq run <cases.txt> <out.ndjson> [parallel]
//       cases.txt: one execution per line
//         <cap> | <prog> | replay|prefix <thread> <thread>! ... | random <seed>
//         prog:  p1=queue:1,tryQueue:2;c1=dequeue,dequeueT;k=close      (ops: queue tryQueue tryQueueT dequeue
//                tryDequeue dequeueT close size; values after ':')
//   drv_bq dfs <cap> <prog> <preemption bound> <max executions> <out.ndjson> [parallel]
//       stateless exploration of ALL schedules of the real object with at most <bound> preemptions
//
// Events (one ndjson line each; executions separated by {"e":"Reset"}):
//   Begin{cap}  Call{t,op,v}  Ret{t,op,ok,v}  End{outcome,stuck[],drift,steps}
#include "iora/core/blocking_queue.hpp"
#include "vf/exec.hpp"
#include "vf/sched.hpp"
#include "vf/trace.hpp"

#include <algorithm>
#include <memory>
#include <random>
#include <set>

using Q = iora::core::BlockingQueue<int>;

struct OpSpec
{
  std::string op;
  int v = 0;
};
struct ThreadProg
{
  std::string name;
  std::vector<OpSpec> ops;
};

static std::vector<ThreadProg> parseProg(const std::string &s)
{
  std::vector<ThreadProg> out;
  for (auto &part : vf::split(s, ';'))
  {
    auto w = vf::words(part);
    if (w.empty()) continue;
    std::string p;
    for (auto &x : w) p += x;
    auto eq = p.find('=');
    ThreadProg tp;
    tp.name = p.substr(0, eq);
    if (eq != std::string::npos)
      for (auto &o : vf::split(p.substr(eq + 1), ','))
      {
        if (o.empty()) continue;
        OpSpec os;
        auto c = o.find(':');
        os.op = o.substr(0, c);
        if (c != std::string::npos) os.v = atoi(o.c_str() + c + 1);
        tp.ops.push_back(os);
      }
    out.push_back(tp);
  }
  return out;
}

static const std::chrono::milliseconds kTimeout(50);

static std::string runOne(int cap, const std::vector<ThreadProg> &prog, const vf::Options &opt, bool emitSched)
{
  vf::Trace tr;
  tr.add(vf::Ev("Begin").i("cap", cap));
  auto q = std::make_shared<Q>((std::size_t)cap);
  vf::reset(opt);
  for (auto &tp : prog)
  {
    vf::spawn(tp.name,
              [&tr, q, tp]()
              {
                for (auto &o : tp.ops)
                {
                  vf::point("call");
                  tr.add(vf::Ev("Call").str("t", tp.name).str("op", o.op).i("v", o.v));
                  bool ok = false;
                  int v = 0;
                  if (o.op == "queue")
                    ok = q->queue(o.v);
                  else if (o.op == "tryQueue")
                    ok = q->tryQueue(o.v);
                  else if (o.op == "tryQueueT")
                    ok = q->tryQueue(o.v, kTimeout);
                  else if (o.op == "dequeue")
                    ok = q->dequeue(v);
                  else if (o.op == "tryDequeue")
                    ok = q->tryDequeue(v);
                  else if (o.op == "dequeueT")
                    ok = q->dequeue(v, kTimeout);
                  else if (o.op == "close")
                  {
                    q->close();
                    ok = true;
                  }
                  else if (o.op == "size")
                  {
                    // the three status calls; the size is what the oracle judges (empty/full must agree with some size)
                    v = (int)q->size();
                    (void)q->empty();
                    (void)q->full();
                    ok = true;
                  }
                  tr.add(vf::Ev("Ret").str("t", tp.name).str("op", o.op).b("ok", ok).i("v", v));
                }
              });
  }
  vf::Result r = vf::run();
  const char *oc = r.outcome == vf::Outcome::Done        ? "done"
                   : r.outcome == vf::Outcome::Stuck     ? "stuck"
                   : r.outcome == vf::Outcome::StepLimit ? "steplimit"
                                                         : "external";
  std::vector<std::string> stuck;
  for (auto &s : r.stuck) stuck.push_back(s.substr(0, s.find('@')));
  std::vector<std::string> ops;
  for (auto &st : r.steps) ops.push_back(st.op);
  tr.add(vf::Ev("End").str("outcome", oc).strs("stuck", stuck).b("drift", r.drift).i("steps", (long long)r.steps.size()).strs("ops", ops));
  std::string text = tr.text();
  if (emitSched)
  {
    // side channel for the DFS parent: "#S tid:enabled,enabled;..." (stripped before the trace is written out)
    std::string s = "#S";
    for (auto &st : r.steps)
    {
      s += " " + std::to_string(st.tid) + ":";
      for (size_t i = 0; i < st.enabled.size(); ++i) s += (i ? "," : "") + std::to_string(st.enabled[i]);
    }
    s += "\n#N";
    // thread names by id, in spawn order
    std::map<int, std::string> names;
    for (auto &st : r.steps) names[st.tid] = st.thread;
    for (auto &kv : names) s += " " + std::to_string(kv.first) + "=" + kv.second;
    text += s + "\n";
  }
  return text;
}

static int cmdRun(int argc, char **argv)
{
  if (argc < 4) return 2;
  auto lines = vf::readLines(argv[2]);
  int par = argc > 4 ? atoi(argv[4]) : 8;
  struct Case
  {
    int cap;
    std::vector<ThreadProg> prog;
    vf::Options opt;
  };
  std::vector<Case> cases;
  for (auto &ln : lines)
  {
    auto parts = vf::split(ln, '|');
    if (parts.size() < 3) continue;
    Case c;
    c.cap = atoi(parts[0].c_str());
    c.prog = parseProg(parts[1]);
    auto w = vf::words(parts[2]);
    if (w.empty()) continue;
    if (w[0] == "random")
    {
      c.opt.policy = vf::Policy::Random;
      c.opt.seed = w.size() > 1 ? strtoull(w[1].c_str(), nullptr, 10) : 1;
    }
    else
    {
      c.opt.policy = w[0] == "prefix" ? vf::Policy::Prefix : vf::Policy::Replay;
      c.opt.plan.assign(w.begin() + 1, w.end());
    }
    cases.push_back(std::move(c));
  }
  auto res = vf::runMany((int)cases.size(), par, 30.0, std::string(argv[3]) + ".d", argv[3],
                         [&](int i) { return runOne(cases[i].cap, cases[i].prog, cases[i].opt, false); });
  printf("executions=%d crashed=%d timedout=%d\n", res.executions, res.crashed, res.timedOut);
  return 0;
}

// Stateless DFS with a preemption bound over the schedules of the real object.
static int cmdDfs(int argc, char **argv)
{
  if (argc < 7) return 2;
  int cap = atoi(argv[2]);
  auto prog = parseProg(argv[3]);
  int bound = atoi(argv[4]);
  int maxExec = atoi(argv[5]);
  std::string outPath = argv[6];
  int par = argc > 7 ? atoi(argv[7]) : 8;
  struct Node
  {
    std::vector<int> prefix; // thread ids
    int preemptions;
  };
  std::vector<Node> wave{{{}, 0}};
  std::set<std::vector<int>> seen;
  FILE *out = fopen(outPath.c_str(), "w");
  int total = 0;
  bool truncated = false;
  std::vector<std::string> nameOf;
  for (auto &tp : prog) nameOf.push_back(tp.name);
  while (!wave.empty() && total < maxExec)
  {
    if ((int)wave.size() > maxExec - total)
    {
      // truncation keeps a seeded random sample of the frontier (not its first entries), so that late preemption points
      // are explored as often as early ones
      std::shuffle(wave.begin(), wave.end(), std::mt19937(12345u + (unsigned)total));
      wave.resize(maxExec - total);
      truncated = true;
    }
    std::string tmp = outPath + ".wave";
    vf::runMany((int)wave.size(), par, 30.0, outPath + ".d", tmp,
                [&](int i)
                {
                  vf::Options o;
                  o.policy = vf::Policy::Prefix;
                  for (int id : wave[i].prefix) o.plan.push_back(nameOf[id]);
                  return runOne(cap, prog, o, true);
                });
    // parse: executions separated by Reset; "#S" lines carry the schedule
    auto lines = vf::readLines(tmp);
    unlink(tmp.c_str());
    std::vector<Node> nextWave;
    int idx = 0;
    for (auto &ln : lines)
    {
      if (ln.rfind("#S", 0) == 0)
      {
        auto w = vf::words(ln.substr(2));
        std::vector<int> chosen;
        std::vector<std::vector<int>> en;
        for (auto &e : w)
        {
          auto c = e.find(':');
          chosen.push_back(atoi(e.substr(0, c).c_str()));
          std::vector<int> v;
          for (auto &x : vf::split(e.substr(c + 1), ','))
            if (!x.empty()) v.push_back(atoi(x.c_str()));
          en.push_back(v);
        }
        const Node &nd = wave[idx];
        // count preemptions along the executed schedule, branch at every decision beyond the prefix
        int pre = 0;
        for (size_t k = 0; k < chosen.size(); ++k)
        {
          bool prevEnabled = false;
          if (k > 0)
            for (int x : en[k])
              if (x == chosen[k - 1]) prevEnabled = true;
          if (k >= nd.prefix.size())
          {
            for (int alt : en[k])
            {
              if (alt == chosen[k]) continue;
              int cost = pre + ((k > 0 && prevEnabled && alt != chosen[k - 1]) ? 1 : 0);
              if (cost > bound) continue;
              std::vector<int> p(chosen.begin(), chosen.begin() + k);
              p.push_back(alt);
              if (seen.insert(p).second) nextWave.push_back({p, cost});
            }
          }
          if (k > 0 && prevEnabled && chosen[k] != chosen[k - 1]) ++pre;
        }
        continue;
      }
      if (ln.rfind("#N", 0) == 0) continue;
      fprintf(out, "%s\n", ln.c_str());
      if (ln.find("\"e\":\"Reset\"") != std::string::npos) ++idx;
    }
    total += (int)wave.size();
    wave.swap(nextWave);
  }
  if (!wave.empty()) truncated = true;
  fclose(out);
  printf("executions=%d truncated=%d\n", total, truncated ? 1 : 0);
  return 0;
}

int main(int argc, char **argv)
{
  if (argc < 2) return 2;
  std::string cmd = argv[1];
  if (cmd == "run") return cmdRun(argc, argv);
  if (cmd == "dfs") return cmdDfs(argc, argv);
  return 2;
}
