// C17 conformance driver: the real iora::network::HttpClient against a scripted raw-socket server.
//
//   drv_httpretry run <cases.txt> <out.ndjson> <parallel>
//   drv_httpretry lens <out.json>          (measures the request length per method and the response length per variant)
//
// One line of <cases.txt> = one execution (forked child):
//   <id> reuse=<0|1> rt=<ms> idle=<0|1> conc=<0|1> | <METHOD> <budget> <pre> <step>;<step>;... | <METHOD> ...
// bo=<n> (default 1): the back-off of the retry loop (std::this_thread::sleep_for -> nanosleep on the calling thread, 100*2^a ms
// + jitter) is divided by n through the interposed nanosleep(): large budgets (.. 8) stay affordable in real time.
// rep=1: a request's script repeats its last step for attempts beyond the script (a peer that fails every time: a retry loop that
// does not end is stopped by the driver after budget + 4 observed attempts, Ret res = runaway, or by the time bound, res = hung).
// <pre> = 1: sleep longer than connectionIdleTimeout (1 s in such executions) before the request.
// A <step> is what happens to the k-th *server-visible* attempt of that logical request (an attempt is visible when it
// calls connect() or when its request bytes arrive on a kept-alive connection):   kind[:variant][@pos]
//   connect level   refused | ctimeout                       (interposed connect(): redirected to a dead / black-hole port)
//   accept level    acc_close | acc_rst                      (close / RST right after accept, nothing read)
//   client send     send_fail@pos | send_short@pos | send_eagain   (interposed send() on the client socket)
//   request phase   req_close@pos | req_rst@pos              (server consumes n request bytes, then close / RST)
//   after request   full_close | full_rst | silence
//   response cut    resp_close[:cl|chunked]@pos | resp_rst..@pos | resp_silence..@pos   (first n response bytes, then ..)
//   malformed       bad:<cl_te|cl_conflict|cl_nonnum|obsfold|badversion|badstatus|nocolon|chunk_size|chunk_crlf>
//   success         ok[:cl|chunked] | ok_connclose[:mixed|list] |
//                   ok_surplus[:cl|chunked|204][@h_bs|hb_bs_s]   surplus bytes in the SAME write as the end of the response;
//                       the response in one write, or  headers | body+surplus,  headers+part of body | rest+surplus | surplus
//                       (the server waits between the writes until the client's engine has read everything sent so far)
//                   ok_latesurplus:<cl|chunked>@h_b_s | ok_latesurplus:204@h_s   surplus in a segment of its own AFTER the
//                       complete response (the client may or may not have seen it when it completes: weaker reading)
//                   ok_idle:<stale|junk>   a complete foreign response / junk delivered while the connection sits in the
//                       cache (driver-coordinated: after the call returned, before the next request is issued) | ok_closedelim | ok_http10 | ok_http10_ka |
//                   ok_then_fin | ok_1xx | ok_500 | ok_204 | ok_split[:cl|chunked]@pos
//   pos = a class (request: peek first line hdr last; response: status hdr hdrend body last) or #<byte offset>
// A step "stale" is a marker of the model (an attempt the server cannot see); the driver skips it.
//
// Events (ndjson).  Only facts observed by the scripted server, by the interposed connect() and by the calling thread
// are logged; a "cause" is logged BEFORE the action that makes it visible to the client (taints, malformed responses),
// an "effect" AFTER it was observed (request bytes), so that the log order respects causality.
//   Begin{x,reuse,ct,rt,conc}  Call{r,m,b}  Ret{r,res,st,ms}  End{}
//   CConn{c,r,mode}            the client called connect() for the server port (mode ok|refused|ctimeout), c = new id
//   SReq{c,r,n,full[,pre]}     the server saw n >= 1 bytes of a request on connection c; r = logical request
//                              (pre: the bytes were already pending when c was tainted - not a re-use)
//                              (X-Req tag in the path if the request line arrived, else the opener of a fresh connection,
//                              else 0); full = the complete request arrived
//   STaint{c,why,r}            the server is about to do something after which c must never carry another request:
//                              why = close_signal | surplus | close_delim | failure | framing
//   SLate{c}                   the server answered later than rt/2 after the client-side marker: execution inconclusive
//   SOverlap{c}                bytes of another request were already there before the response was sent (lease; note only)
//   SLateSurplus{c,r} SIdle{c} surplus after the complete response / while idle was sent on c (no taint: weaker reading)
//   Ret.rt                     the X-Resp tag of the response the call returned (every scripted response carries the tag of
//                              the request it answers; the foreign idle response carries 99)
#include <algorithm>
#include <arpa/inet.h>
#include <atomic>
#include <cerrno>
#include <chrono>
#include <cstring>
#include <dlfcn.h>
#include <fcntl.h>
#include <map>
#include <mutex>
#include <netinet/in.h>
#include <netinet/tcp.h>
#include <poll.h>
#include <string>
#include <sys/socket.h>
#include <thread>
#include <unistd.h>
#include <vector>

#include "iora/network/http_client.hpp"
#include "vf/exec.hpp"
#include "vf/trace.hpp"

using iora::network::HttpClient;

// ------------------------------------------------------------------ access to the private performRequest (no hook needed)
namespace rob
{
using PerformFn = HttpClient::Response (HttpClient::*)(const std::string &, const std::string &, const std::string &,
                                                       const std::map<std::string, std::string> &, int);
template <PerformFn F> struct Rob
{
  friend PerformFn performFn() { return F; }
};
PerformFn performFn();
template struct Rob<&HttpClient::performRequest>;
using TransportMem = std::shared_ptr<iora::network::Transport> HttpClient::*;
template <TransportMem M> struct RobT
{
  friend TransportMem transportMem() { return M; }
};
TransportMem transportMem();
template struct RobT<&HttpClient::_transport>;
} // namespace rob

// ------------------------------------------------------------------ script
struct Step
{
  std::string kind, variant, pos; // pos: class name or "#n"
  int off() const { return (pos.size() > 1 && pos[0] == '#') ? atoi(pos.c_str() + 1) : -1; }
};
struct ReqSpec
{
  std::string method;
  int budget = 0;
  int pre = 0;
  std::vector<Step> steps; // server-visible attempts only
};
struct CaseSpec
{
  std::string id;
  int reuse = 1, rt = 400, idle = 0, conc = 0, ct = 200;
  int rep = 0; // 1: when the script of a request is exhausted the peer repeats its last step (default: answers ok)
  int lat = 0; // leaseAcquireTimeout (ms); > 0: concurrent callers start staggered (caller r + 1 once the request of caller r has
               // reached the peer or caller r has returned) and a further thread keeps issuing requests to ANOTHER host
  int bo = 1; // back-off divisor: the retry loop's sleeps on the calling thread are shortened by this factor
  std::vector<ReqSpec> reqs;
};

static Step parseStep(const std::string &s)
{
  Step st;
  std::string t = s;
  auto at = t.find('@');
  if (at != std::string::npos)
  {
    st.pos = t.substr(at + 1);
    t = t.substr(0, at);
  }
  auto co = t.find(':');
  if (co != std::string::npos)
  {
    st.variant = t.substr(co + 1);
    t = t.substr(0, co);
  }
  st.kind = t;
  return st;
}

static CaseSpec parseCase(const std::string &line)
{
  CaseSpec c;
  auto parts = vf::split(line, '|');
  auto head = vf::words(parts[0]);
  c.id = head.empty() ? "?" : head[0];
  for (size_t i = 1; i < head.size(); ++i)
  {
    auto kv = vf::split(head[i], '=');
    if (kv.size() != 2) continue;
    int v = atoi(kv[1].c_str());
    if (kv[0] == "reuse") c.reuse = v;
    if (kv[0] == "rt") c.rt = v;
    if (kv[0] == "idle") c.idle = v;
    if (kv[0] == "conc") c.conc = v;
    if (kv[0] == "bo" && v >= 1) c.bo = v;
    if (kv[0] == "rep") c.rep = v;
    if (kv[0] == "lat") c.lat = v;
  }
  for (size_t i = 1; i < parts.size(); ++i)
  {
    auto w = vf::words(parts[i]);
    if (w.size() < 3) continue;
    ReqSpec r;
    r.method = w[0];
    r.budget = atoi(w[1].c_str());
    r.pre = atoi(w[2].c_str());
    if (w.size() >= 4)
      for (auto &s : vf::split(w[3], ';'))
        if (!s.empty() && s != "stale" && s != "leaseto" && s != "-") r.steps.push_back(parseStep(s));
    c.reqs.push_back(r);
  }
  return c;
}

// ------------------------------------------------------------------ process-wide state of one execution (child process)
static vf::Trace g_trace;
static double g_t0 = 0;
static vf::Ev ev(const char *name) // every event carries t = ms since Begin (a debugging aid, never read by the oracle)
{
  vf::Ev e(name);
  e.i("t", (long long)((vf::nowSec() - g_t0) * 1000));
  return e;
}
static std::mutex g_mx; // protects the tables below (I/O thread in connect()/send(), server thread, caller threads)
static CaseSpec g_case;
static std::atomic<bool> g_on{false};
static int g_serverPort = 0, g_deadPort = 0, g_bhPort = 0;
static std::atomic<int> g_curReq{0};
static std::map<int, int> g_vis;  // logical request -> server-visible attempts so far
static std::atomic<int> g_runaway{0}; // logical request whose visible attempts exceeded budget + 3 (never-ending retry loop)
static void noteAttempt(int r, int k) // g_mx held
{
  extern int budgetOf(int r);
  if (r > 0 && k > budgetOf(r) + 3) g_runaway.store(r);
}
static int g_nextCid = 0;
struct PortInfo
{
  int cid, r, k;
};
static std::map<int, PortInfo> g_ports; // client local port -> connection
struct SendFault
{
  std::string kind;
  int n;
  int calls;
};
static std::map<int, SendFault> g_sendFaults; // client fd -> pending fault
static std::map<int, double> g_mark;          // logical request -> latest client-side marker time (Call / CConn)
static std::map<int, long long> g_clientRecv; // connection -> bytes the client's engine has recv()'d on it
static thread_local bool t_isServer = false;  // the scripted server's own recv() calls are not counted
static double g_markAny = 0;

int budgetOf(int r) { return (r >= 1 && r <= (int)g_case.reqs.size()) ? g_case.reqs[r - 1].budget : 1000000; }

static const Step *lookupStep(int r, int k)
{
  if (r < 1 || r > (int)g_case.reqs.size()) return nullptr;
  auto &v = g_case.reqs[r - 1].steps;
  if (k > (int)v.size() && g_case.rep && !v.empty()) return &v.back(); // a peer that keeps doing the same thing
  if (k < 1 || k > (int)v.size()) return nullptr;
  return &v[k - 1];
}

// ------------------------------------------------------------------ interposed connect() / send()
typedef int (*connect_fn)(int, const struct sockaddr *, socklen_t);
typedef ssize_t (*send_fn)(int, const void *, size_t, int);
typedef ssize_t (*recv_fn)(int, void *, size_t, int);
static recv_fn realRecv()
{
  static recv_fn f = (recv_fn)dlsym(RTLD_NEXT, "recv");
  return f;
}
static connect_fn realConnect()
{
  static connect_fn f = (connect_fn)dlsym(RTLD_NEXT, "connect");
  return f;
}
static send_fn realSend()
{
  static send_fn f = (send_fn)dlsym(RTLD_NEXT, "send");
  return f;
}

extern "C" int connect(int fd, const struct sockaddr *addr, socklen_t len)
{
  if (!g_on.load() || !addr || addr->sa_family != AF_INET || len < (socklen_t)sizeof(sockaddr_in))
    return realConnect()(fd, addr, len);
  sockaddr_in a;
  memcpy(&a, addr, sizeof a);
  if (ntohs(a.sin_port) != g_serverPort) return realConnect()(fd, addr, len);
  int mode = 0, cid = 0, r = 0, k = 0;
  {
    std::lock_guard<std::mutex> g(g_mx);
    r = g_curReq.load();
    cid = ++g_nextCid;
    const Step *st = nullptr;
    if (r > 0)
    {
      k = ++g_vis[r];
      noteAttempt(r, k);
      st = lookupStep(r, k);
    }
    if (st && st->kind == "refused") mode = 1;
    if (st && st->kind == "ctimeout") mode = 2;
    double now = vf::nowSec();
    g_mark[r] = now;
    g_markAny = now;
    if (mode == 0)
    {
      sockaddr_in b{};
      b.sin_family = AF_INET;
      b.sin_addr.s_addr = htonl(INADDR_LOOPBACK);
      b.sin_port = 0;
      ::bind(fd, (sockaddr *)&b, sizeof b);
      socklen_t bl = sizeof b;
      if (getsockname(fd, (sockaddr *)&b, &bl) == 0) g_ports[ntohs(b.sin_port)] = PortInfo{cid, r, k};
      if (st && (st->kind == "send_fail" || st->kind == "send_short" || st->kind == "send_eagain"))
      {
        int n = st->off();
        if (n < 0) n = st->pos == "zero" ? 0 : st->pos == "first" ? 1 : st->pos == "line" ? 9 : st->pos == "hdr" ? 60 : 0;
        g_sendFaults[fd] = SendFault{st->kind, n, 0};
      }
      else
        g_sendFaults.erase(fd);
    }
    // cause before effect: the connection attempt is logged before the SYN leaves
    g_trace.add(ev("CConn").i("c", cid).i("r", r).str("mode", mode == 0 ? "ok" : mode == 1 ? "refused" : "ctimeout"));
  }
  if (mode == 1) a.sin_port = htons(g_deadPort);
  if (mode == 2) a.sin_port = htons(g_bhPort);
  return realConnect()(fd, (sockaddr *)&a, sizeof a);
}

extern "C" ssize_t send(int fd, const void *buf, size_t n, int flags)
{
  if (!g_on.load()) return realSend()(fd, buf, n, flags);
  std::string kind;
  int fn = 0, calls = 0;
  {
    std::lock_guard<std::mutex> g(g_mx);
    auto it = g_sendFaults.find(fd);
    if (it == g_sendFaults.end()) return realSend()(fd, buf, n, flags);
    // make sure this really is the client side of a connection to the scripted server (fd numbers are reused)
    sockaddr_in p{};
    socklen_t pl = sizeof p;
    if (getpeername(fd, (sockaddr *)&p, &pl) != 0 || ntohs(p.sin_port) != g_serverPort)
    {
      g_sendFaults.erase(it);
      return realSend()(fd, buf, n, flags);
    }
    kind = it->second.kind;
    fn = it->second.n;
    calls = it->second.calls++;
    bool keep = kind == "send_fail" && fn > 0 && calls == 0; // the short write comes first, the failure next time
    if (!keep) g_sendFaults.erase(it);
  }
  if (kind == "send_eagain")
  {
    errno = EAGAIN;
    return -1;
  }
  if (kind == "send_short")
  {
    size_t k = std::min<size_t>((size_t)std::max(fn, 1), n);
    return realSend()(fd, buf, k, flags);
  }
  // send_fail: the first call writes fn bytes (short write), the next call fails; fn == 0: the first call fails
  if (fn > 0 && calls == 0)
  {
    size_t k = std::min<size_t>((size_t)fn, n);
    return realSend()(fd, buf, k, flags);
  }
  errno = ECONNRESET;
  return -1;
}

// the retry loop's back-off: sleeps of the CALLING thread inside performRequest are divided by the case's bo
static thread_local int t_sleepDiv = 1;
typedef int (*nanosleep_fn)(const struct timespec *, struct timespec *);
typedef int (*clock_nanosleep_fn)(clockid_t, int, const struct timespec *, struct timespec *);
extern "C" int nanosleep(const struct timespec *req, struct timespec *rem)
{
  static nanosleep_fn real = (nanosleep_fn)dlsym(RTLD_NEXT, "nanosleep");
  if (t_sleepDiv <= 1 || !req) return real(req, rem);
  long long ns = ((long long)req->tv_sec * 1000000000LL + req->tv_nsec) / t_sleepDiv;
  struct timespec ts;
  ts.tv_sec = (time_t)(ns / 1000000000LL);
  ts.tv_nsec = (long)(ns % 1000000000LL);
  int rc = real(&ts, nullptr);
  if (rem) rem->tv_sec = 0, rem->tv_nsec = 0;
  return rc;
}
extern "C" int clock_nanosleep(clockid_t clk, int flags, const struct timespec *req, struct timespec *rem)
{
  static clock_nanosleep_fn real = (clock_nanosleep_fn)dlsym(RTLD_NEXT, "clock_nanosleep");
  if (t_sleepDiv <= 1 || !req || (flags & TIMER_ABSTIME)) return real(clk, flags, req, rem);
  long long ns = ((long long)req->tv_sec * 1000000000LL + req->tv_nsec) / t_sleepDiv;
  struct timespec ts;
  ts.tv_sec = (time_t)(ns / 1000000000LL);
  ts.tv_nsec = (long)(ns % 1000000000LL);
  int rc = real(clk, flags, &ts, nullptr);
  if (rem) rem->tv_sec = 0, rem->tv_nsec = 0;
  return rc;
}

// counts what the client's engine has actually read per connection (lets the server / the driver wait until bytes they
// sent have been consumed by the client, instead of guessing with sleeps)
extern "C" ssize_t recv(int fd, void *buf, size_t n, int flags)
{
  ssize_t k = realRecv()(fd, buf, n, flags);
  if (k <= 0 || t_isServer || (flags & MSG_PEEK) || !g_on.load()) return k;
  int saved = errno;
  sockaddr_in p{};
  socklen_t pl = sizeof p;
  if (getpeername(fd, (sockaddr *)&p, &pl) == 0 && p.sin_family == AF_INET && ntohs(p.sin_port) == g_serverPort)
  {
    sockaddr_in l{};
    socklen_t ll = sizeof l;
    if (getsockname(fd, (sockaddr *)&l, &ll) == 0)
    {
      std::lock_guard<std::mutex> g(g_mx);
      auto it = g_ports.find(ntohs(l.sin_port));
      if (it != g_ports.end()) g_clientRecv[it->second.cid] += k;
    }
  }
  errno = saved;
  return k;
}

static bool waitClientRecv(int cid, long long target, int timeoutMs)
{
  double t0 = vf::nowSec();
  for (;;)
  {
    {
      std::lock_guard<std::mutex> g(g_mx);
      if (g_clientRecv[cid] >= target) return true;
    }
    if ((vf::nowSec() - t0) * 1000 > timeoutMs) return false;
    usleep(300);
  }
}

// ------------------------------------------------------------------ scripted server
static std::string crlf(const std::vector<std::string> &lines)
{
  std::string o;
  for (auto &l : lines) o += l + "\r\n";
  return o + "\r\n";
}

struct Built
{
  std::string bytes;
  size_t statusEnd = 0, hdrEnd = 0; // offsets: end of status line, end of header block (after CRLFCRLF)
};

static Built buildResponse(const std::string &kind, const std::string &variantIn, bool head, int r)
{
  std::string variant = variantIn.empty() ? "cl" : variantIn;
  std::string status = "HTTP/1.1 200 OK";
  std::vector<std::string> h;
  std::string body = "hello";
  bool chunked = variant == "chunked";
  if (kind == "ok_http10" || kind == "ok_http10_ka") status = "HTTP/1.0 200 OK";
  if (kind == "ok_500") status = "HTTP/1.1 500 Internal Server Error";
  bool is204 = kind == "ok_204" || ((kind == "ok_surplus" || kind == "ok_latesurplus") && variantIn == "204");
  bool is304 = variantIn == "304";
  if (is204)
  {
    status = "HTTP/1.1 204 No Content";
    body = "";
  }
  if (is304)
  {
    status = "HTTP/1.1 304 Not Modified";
    body = "";
    is204 = true; // no body, no framing header
  }
  if (variantIn == "cl0") body = "", variant = "cl";   // Content-Length: 0
  bool chunked0 = variantIn == "chunked0";               // a chunked body that consists of the last-chunk only
  if (chunked0) body = "", chunked = true;
  if (kind == "ok_conn")
  {
    // variant = <0|1>~<field value>, '_' = SP, '^' = HTAB, '&' = continued in a second Connection field line; the driver
    // does not interpret the value (whether it is a close signal comes with the step: @close / @keep, decided by the model)
    if (!variantIn.empty() && variantIn[0] == '0') status = "HTTP/1.0 200 OK";
    variant = "cl";
    chunked = false;
  }
  h.push_back("Content-Type: text/plain");
  h.push_back("X-Resp: " + std::to_string(r)); // which request this response answers
  if (kind == "stale") body = "stale";
  if (kind == "ok_connclose")
    h.push_back(variantIn == "mixed" ? "connection: Close" : variantIn == "list" ? "Connection: keep-alive, close" : "Connection: close");
  if (kind == "ok_http10_ka") h.push_back("Connection: keep-alive");
  if (kind == "ok_conn")
  {
    std::string val;
    for (size_t i = 2; i < variantIn.size(); ++i)
    {
      char ch = variantIn[i];
      if (ch == '_') val += ' ';
      else if (ch == '^') val += '\t';
      else if (ch == '&') val += "\r\nConnection: ";
      else val += ch;
    }
    h.push_back("Connection: " + val);
  }
  std::string wireBody;
  if (kind == "ok_closedelim")
    wireBody = body; // neither Content-Length nor Transfer-Encoding: the body ends when the server half-closes
  else if (is204)
    wireBody = "";
  else if (kind == "bad")
  {
    const std::string &v = variantIn;
    if (v == "cl_te")
    {
      h.push_back("Content-Length: 5");
      h.push_back("Transfer-Encoding: chunked");
      wireBody = "5\r\nhello\r\n0\r\n\r\n";
    }
    else if (v == "cl_conflict")
    {
      h.push_back("Content-Length: 5");
      h.push_back("Content-Length: 6");
      wireBody = body;
    }
    else if (v == "cl_nonnum")
    {
      h.push_back("Content-Length: 5x");
      wireBody = body;
    }
    else if (v == "obsfold")
    {
      h.push_back("X-Folded: a");
      h.push_back(" continued");
      h.push_back("Content-Length: 5");
      wireBody = body;
    }
    else if (v == "badversion")
    {
      status = "HTTP/2.0 200 OK";
      h.push_back("Content-Length: 5");
      wireBody = body;
    }
    else if (v == "badstatus")
    {
      status = "HTTP/1.1 2x0 OK";
      h.push_back("Content-Length: 5");
      wireBody = body;
    }
    else if (v == "nocolon")
    {
      h.push_back("this-line-has-no-colon");
      h.push_back("Content-Length: 5");
      wireBody = body;
    }
    else if (v == "chunk_size")
    {
      h.push_back("Transfer-Encoding: chunked");
      wireBody = "zz\r\nhello\r\n0\r\n\r\n";
    }
    else // chunk_crlf
    {
      h.push_back("Transfer-Encoding: chunked");
      wireBody = "3\r\nhelXX2\r\nlo\r\n0\r\n\r\n";
    }
  }
  else if (chunked)
  {
    h.push_back("Transfer-Encoding: chunked");
    wireBody = chunked0 ? "0\r\n\r\n" : "3\r\nhel\r\n2\r\nlo\r\n0\r\n\r\n";
  }
  else
  {
    h.push_back("Content-Length: " + std::to_string(body.size()));
    wireBody = body;
  }
  Built b;
  std::vector<std::string> all;
  all.push_back(status);
  for (auto &x : h) all.push_back(x);
  b.bytes = crlf(all);
  b.statusEnd = status.size() + 2;
  b.hdrEnd = b.bytes.size();
  if (!head) b.bytes += wireBody;
  if (kind == "ok_1xx") b.bytes = "HTTP/1.1 100 Continue\r\n\r\n" + b.bytes;
  return b;
}

static size_t respCut(const Step &st, const Built &b)
{
  size_t total = b.bytes.size();
  long n = st.off();
  if (n < 0)
  {
    if (st.pos == "status")
      n = 7;
    else if (st.pos == "hdr")
      n = (long)(b.statusEnd + (b.hdrEnd - b.statusEnd) / 2);
    else if (st.pos == "hdrend")
      n = (long)b.hdrEnd;
    else if (st.pos == "body")
      n = (long)(b.hdrEnd + (total - b.hdrEnd) / 2);
    else
      n = (long)total - 1;
  }
  if (n < 1) n = 1;
  if (n > (long)total - 1) n = (long)total - 1;
  return (size_t)n;
}

struct SConn
{
  int fd = -1;
  int cid = 0, openedBy = 0, kOpen = 0;
  bool first = true;     // no request has been answered / cut on this connection yet
  bool started = false;  // some bytes of the current request were seen
  std::string in;        // consumed bytes of the current, still incomplete request
  bool haveStep = false;
  Step step;
  int stepReq = 0;
  bool tainted = false;
  bool closed = false;
  bool halfClosed = false; // we sent FIN (close-delimited body) but keep reading
  bool preBytes = false;   // request bytes were already pending when the connection was tainted
  long long sent = 0;      // bytes written to this connection so far
  std::string idlePending; // ok_idle: what to deliver while the connection sits in the client's cache
};

static std::atomic<bool> g_stop{false};
static std::atomic<int> g_idleReq{0}, g_idleAck{0};
static std::vector<std::pair<int, long long>> g_idleTargets; // (connection, bytes sent in total) of the last delivery
static std::vector<SConn> g_conns;
static int g_listenFd = -1;

static void hardClose(SConn &c, bool rst)
{
  if (c.fd < 0) return;
  if (rst)
  {
    struct linger lg;
    lg.l_onoff = 1;
    lg.l_linger = 0;
    setsockopt(c.fd, SOL_SOCKET, SO_LINGER, &lg, sizeof lg);
  }
  ::close(c.fd);
  c.fd = -1;
  c.closed = true;
}

static void sendAll(int fd, const char *p, size_t n)
{
  size_t off = 0;
  while (off < n)
  {
    ssize_t k = realSend()(fd, p + off, n - off, MSG_NOSIGNAL);
    if (k <= 0)
    {
      if (k < 0 && (errno == EAGAIN || errno == EINTR))
      {
        usleep(200);
        continue;
      }
      break;
    }
    off += (size_t)k;
  }
}

struct SConn;
static void sendConn(SConn &c, const char *p, size_t n);

static int tagOf(const std::string &s) // "METHOD /r<digits> ..." -> digits; 0 if the request line is not complete
{
  auto eol = s.find("\r\n");
  if (eol == std::string::npos) return 0;
  auto sp = s.find(' ');
  if (sp == std::string::npos || sp + 2 >= eol || s[sp + 1] != '/' || s[sp + 2] != 'r') return 0;
  return atoi(s.c_str() + sp + 3);
}
static std::string methodOf(const std::string &s)
{
  auto sp = s.find(' ');
  return sp == std::string::npos ? "" : s.substr(0, sp);
}
// total length of the request starting at s[0] if its header block is complete, else 0
static size_t fullLen(const std::string &s)
{
  auto he = s.find("\r\n\r\n");
  if (he == std::string::npos) return 0;
  size_t cl = 0;
  auto p = s.find("Content-Length: ");
  if (p != std::string::npos && p < he) cl = (size_t)atoi(s.c_str() + p + 16);
  return he + 4 + cl;
}

static void taint(SConn &c, const char *why, int r)
{
  c.tainted = true;
  // bytes that are already here were sent BEFORE the taint: the request they belong to is not a re-use (only possible
  // when two exchanges overlap on one connection, i.e. without the lease)
  char t;
  if (!c.in.empty() || recv(c.fd, &t, 1, MSG_PEEK | MSG_DONTWAIT) > 0) c.preBytes = true;
  g_trace.add(ev("STaint").i("c", c.cid).str("why", why).i("r", r));
}

static std::atomic<int> g_arrived[8]; // the complete request r has reached the scripted server
static std::atomic<int> g_returned[8];
static void logReq(SConn &c, int r, long long n, bool full, long long cut = -1)
{
  if (full && r >= 1 && r < 8) g_arrived[r].store(1);
  vf::Ev e = ev("SReq");
  e.i("c", c.cid).i("r", r).i("n", n).b("full", full);
  if (cut >= 0) e.i("cut", cut);
  if (c.preBytes) e.b("pre", true);
  c.preBytes = false;
  g_trace.add(e);
}

static void checkLate(SConn &c, int r)
{
  double mark;
  {
    std::lock_guard<std::mutex> g(g_mx);
    mark = g_mark.count(r) ? g_mark[r] : g_markAny;
  }
  if (vf::nowSec() - mark > g_case.rt / 2000.0) g_trace.add(ev("SLate").i("c", c.cid));
}

static void sendConn(SConn &c, const char *p, size_t n)
{
  if (c.fd < 0) return;
  sendAll(c.fd, p, n);
  c.sent += (long long)n;
}

// Surplus bytes after a complete response.  ok_surplus: the surplus is in the SAME write as the last byte of the response
// (whatever the segmentation before it), so a client that reads what has arrived cannot miss it: the connection is
// tainted.  ok_latesurplus: the surplus comes in a write of its own after the complete response; the client may already
// have completed the exchange: no taint (weaker reading), only SLateSurplus.
static void surplusResponse(SConn &c, const Step &st, const std::string &k, bool head, int r)
{
  Built b = buildResponse(k, st.variant, head, r);
  const std::string &y = b.bytes;
  size_t H = b.hdrEnd, T = y.size();
  std::vector<std::string> segs;
  if (st.pos == "h_bs" && T > H)
    segs = {y.substr(0, H), y.substr(H) + "XTRA"};
  else if (st.pos == "hb_bs_s" && T > H + 1)
  {
    size_t m = H + (T - H) / 2;
    segs = {y.substr(0, m), y.substr(m) + "XT", "RA"};
  }
  else if (st.pos == "h_b_s" && T > H)
    segs = {y.substr(0, H), y.substr(H), "XTRA"};
  else if (st.pos == "h_s")
    segs = {y, "XTRA"};
  else
    segs = {y + "XTRA"}; // one write: response and surplus arrive together
  if (k == "ok_surplus")
    taint(c, "surplus", r);
  else
    g_trace.add(ev("SLateSurplus").i("c", c.cid).i("r", r));
  for (size_t i = 0; i < segs.size(); ++i)
  {
    sendConn(c, segs[i].data(), segs[i].size());
    if (i + 1 < segs.size())
    {
      // the next write only after the client's engine has read everything sent so far, plus time to parse it
      waitClientRecv(c.cid, c.sent, 150);
      usleep(8000);
    }
  }
}

static void selectStep(SConn &c, int r)
{
  std::lock_guard<std::mutex> g(g_mx);
  int k = ++g_vis[r];
  noteAttempt(r, k);
  const Step *st = lookupStep(r, k);
  c.step = st ? *st : Step{"ok", "", ""};
  // connect-level / accept-level / client-side kinds mean nothing for a request that arrives on an open connection
  c.haveStep = true;
  c.stepReq = r;
}

static bool serverSideDefault(const std::string &k)
{
  return k == "refused" || k == "ctimeout" || k == "acc_close" || k == "acc_rst" || k == "send_short" ||
         k == "send_eagain" || k == "send_fail" || k == "stale";
}

static void respond(SConn &c, int r, const std::string &method)
{
  Step st = c.step;
  bool head = method == "HEAD";
  std::string k = st.kind;
  if (serverSideDefault(k)) k = "ok";
  if (k == "full_close" || k == "full_rst")
  {
    hardClose(c, k == "full_rst");
    return;
  }
  if (k == "silence")
  {
    taint(c, "failure", r);
    return;
  }
  if (k == "resp_close" || k == "resp_rst" || k == "resp_silence")
  {
    Built b = buildResponse("ok", st.variant, head, r);
    size_t n = respCut(st, b);
    if (k == "resp_silence") taint(c, "failure", r);
    sendConn(c, b.bytes.data(), n);
    if (k != "resp_silence") hardClose(c, k == "resp_rst");
    return;
  }
  if (k == "bad")
  {
    Built b = buildResponse("bad", st.variant, head, r);
    taint(c, "framing", r);
    sendConn(c, b.bytes.data(), b.bytes.size());
    checkLate(c, r);
    return;
  }
  if (k == "ok_surplus" || k == "ok_latesurplus")
  {
    surplusResponse(c, st, k, head, r);
    return;
  }
  std::string ov = st.variant;
  if (k == "ok_idle")
  {
    c.idlePending = st.variant; // delivered later, on the driver's signal (deliverIdle)
    ov = "";
  }
  Built b = buildResponse(k, ov, head, r);
  std::string out = b.bytes;
  if (k == "ok_connclose" || k == "ok_http10") taint(c, "close_signal", r);
  if (k == "ok_conn" && st.pos == "close") taint(c, "close_signal", r);
  if (k == "ok_closedelim" && !head) taint(c, "close_delim", r);
  if (k == "ok_split")
  {
    size_t n = respCut(st, b);
    sendConn(c, out.data(), n);
    usleep(3000);
    sendConn(c, out.data() + n, out.size() - n);
  }
  else
    sendConn(c, out.data(), out.size()); // one write: response and surplus arrive together
  if (k == "ok_closedelim" && !head)
  {
    shutdown(c.fd, SHUT_WR);
    c.halfClosed = true;
  }
  if (k == "ok_then_fin") hardClose(c, false);
}

static size_t reqCut(const Step &st, const std::string &full)
{
  long n = st.off();
  size_t total = full.size();
  if (n < 0)
  {
    size_t le = full.find("\r\n");
    size_t he = full.find("\r\n\r\n");
    if (st.pos == "peek")
      n = 0;
    else if (st.pos == "first")
      n = 1;
    else if (st.pos == "line")
      n = (long)(le / 2);
    else if (st.pos == "hdr")
      n = (long)(le + 2 + (he - le) / 2);
    else
      n = (long)total - 1;
  }
  if (n < 0) n = 0;
  if (n > (long)total - 1) n = (long)total - 1;
  return (size_t)n;
}

static void onReadable(SConn &c)
{
  char buf[8192];
  // 1. which logical request is this, which script step applies?
  ssize_t pk = recv(c.fd, buf, sizeof buf, MSG_PEEK | MSG_DONTWAIT);
  if (pk < 0)
  {
    if (errno == EAGAIN || errno == EINTR) return;
    pk = 0; // reset by peer: treat like EOF
  }
  if (pk == 0)
  {
    if (c.started && !c.in.empty())
    {
      int r = tagOf(c.in);
      if (r == 0 && c.first) r = c.openedBy;
      logReq(c, r, (long long)c.in.size(), false);
    }
    hardClose(c, false);
    return;
  }
  std::string seen = c.in + std::string(buf, (size_t)pk);
  int tag = tagOf(seen);
  int r = tag > 0 ? tag : (c.first && c.openedBy > 0 ? c.openedBy : g_curReq.load());
  if (!c.haveStep) selectStep(c, r);
  c.started = true;
  const std::string &k = c.step.kind;
  if (k == "req_close" || k == "req_rst")
  {
    size_t fl = fullLen(seen);
    int off = c.step.off();
    if ((fl == 0 || seen.size() < fl) && !(off >= 0 && (size_t)off < seen.size()))
    {
      // the whole request is needed to place the cut: consume what is there and wait for the rest
      ssize_t got = recv(c.fd, buf, sizeof buf, MSG_DONTWAIT);
      if (got > 0) c.in.append(buf, (size_t)got);
      return;
    }
    std::string full = (fl > 0 && seen.size() >= fl) ? seen.substr(0, fl) : seen;
    size_t n = reqCut(c.step, full);
    // consume up to n bytes in total (c.in already holds some when the request came in pieces)
    if (n > c.in.size())
    {
      ssize_t got = recv(c.fd, buf, n - c.in.size(), MSG_DONTWAIT);
      if (got > 0) c.in.append(buf, (size_t)got);
    }
    int rr = tagOf(seen);
    if (rr == 0 && c.first) rr = c.openedBy;
    logReq(c, rr, (long long)seen.size(), false, (long long)n);
    hardClose(c, k == "req_rst");
    return;
  }
  // 2. consume everything that is there; answer every complete request
  ssize_t got = recv(c.fd, buf, sizeof buf, MSG_DONTWAIT);
  if (got <= 0) return;
  c.in.append(buf, (size_t)got);
  while (!c.closed)
  {
    size_t fl = fullLen(c.in);
    if (fl == 0 || c.in.size() < fl) break;
    std::string req = c.in.substr(0, fl);
    c.in.erase(0, fl);
    int rr = tagOf(req);
    if (!c.haveStep) selectStep(c, rr);
    logReq(c, rr, (long long)fl, true);
    if (!c.in.empty()) g_trace.add(ev("SOverlap").i("c", c.cid));
    if (c.halfClosed)
    {
      c.haveStep = false;
      c.first = false;
      c.started = !c.in.empty();
      continue; // cannot answer any more
    }
    if (g_case.conc)
    {
      // concurrent callers: give an unleased second caller time to put its request on the same connection
      usleep(15000);
      char t;
      if (recv(c.fd, &t, 1, MSG_PEEK | MSG_DONTWAIT) > 0) g_trace.add(ev("SOverlap").i("c", c.cid));
    }
    respond(c, rr, methodOf(req));
    c.haveStep = false;
    c.first = false;
    c.started = !c.in.empty();
  }
}

static void acceptAll()
{
  for (;;)
  {
    sockaddr_in pa{};
    socklen_t pl = sizeof pa;
    int fd = accept4(g_listenFd, (sockaddr *)&pa, &pl, SOCK_NONBLOCK | SOCK_CLOEXEC);
    if (fd < 0) return;
    int one = 1;
    setsockopt(fd, IPPROTO_TCP, TCP_NODELAY, &one, sizeof one);
    SConn c;
    c.fd = fd;
    PortInfo pi{0, 0, 0};
    {
      std::lock_guard<std::mutex> g(g_mx);
      auto it = g_ports.find(ntohs(pa.sin_port));
      if (it != g_ports.end()) pi = it->second;
    }
    c.cid = pi.cid;
    c.openedBy = pi.r;
    c.kOpen = pi.k;
    if (pi.r > 0)
    {
      const Step *st = lookupStep(pi.r, pi.k);
      c.step = st ? *st : Step{"ok", "", ""};
      c.haveStep = true;
      c.stepReq = pi.r;
    }
    if (c.haveStep && (c.step.kind == "acc_close" || c.step.kind == "acc_rst"))
    {
      hardClose(c, c.step.kind == "acc_rst");
    }
    g_conns.push_back(c);
  }
}

static void serverDeliverIdle()
{
  std::vector<std::pair<int, long long>> targets;
  for (auto &c : g_conns)
    if (c.fd >= 0 && !c.idlePending.empty())
    {
      std::string bytes = c.idlePending == "stale" ? buildResponse("stale", "", false, 99).bytes : std::string("XTRA");
      c.idlePending.clear();
      g_trace.add(ev("SIdle").i("c", c.cid));
      sendConn(c, bytes.data(), bytes.size());
      targets.push_back({c.cid, c.sent});
    }
  std::lock_guard<std::mutex> g(g_mx);
  g_idleTargets = targets;
}

static void serverLoop()
{
  t_isServer = true;
  while (true)
  {
    bool stopping = g_stop.load();
    if (g_idleReq.load() != g_idleAck.load())
    {
      int gen = g_idleReq.load();
      serverDeliverIdle();
      g_idleAck.store(gen);
    }
    std::vector<pollfd> pf;
    pf.push_back({g_listenFd, POLLIN, 0});
    std::vector<size_t> idx;
    for (size_t i = 0; i < g_conns.size(); ++i)
      if (g_conns[i].fd >= 0)
      {
        pf.push_back({g_conns[i].fd, POLLIN, 0});
        idx.push_back(i);
      }
    int n = poll(pf.data(), pf.size(), stopping ? 0 : 2);
    if (n > 0)
    {
      if (pf[0].revents & POLLIN) acceptAll();
      for (size_t j = 1; j < pf.size(); ++j)
        if (pf[j].revents & (POLLIN | POLLHUP | POLLERR)) onReadable(g_conns[idx[j - 1]]);
    }
    if (stopping && n <= 0) break;
  }
}

static int makeListener(int backlog, bool doListen, int &port)
{
  int fd = socket(AF_INET, SOCK_STREAM | SOCK_CLOEXEC, 0);
  sockaddr_in a{};
  a.sin_family = AF_INET;
  a.sin_addr.s_addr = htonl(INADDR_LOOPBACK);
  a.sin_port = 0;
  if (bind(fd, (sockaddr *)&a, sizeof a) < 0) return -1;
  if (doListen && listen(fd, backlog) < 0) return -1;
  socklen_t l = sizeof a;
  getsockname(fd, (sockaddr *)&a, &l);
  port = ntohs(a.sin_port);
  return fd;
}

// ------------------------------------------------------------------ another host (lat > 0): answers every request at once
static int g_otherFd = -1, g_otherPort = 0;
static std::atomic<int> g_otherDone{0};
static void otherServerLoop()
{
  t_isServer = true;
  std::vector<int> fds;
  std::map<int, std::string> in;
  while (!g_stop.load())
  {
    std::vector<pollfd> pf;
    pf.push_back({g_otherFd, POLLIN, 0});
    for (int fd : fds) pf.push_back({fd, POLLIN, 0});
    if (poll(pf.data(), pf.size(), 5) <= 0) continue;
    if (pf[0].revents & POLLIN)
    {
      int fd = accept4(g_otherFd, nullptr, nullptr, SOCK_NONBLOCK | SOCK_CLOEXEC);
      if (fd >= 0) fds.push_back(fd);
    }
    for (size_t j = 1; j < pf.size(); ++j)
    {
      if (!(pf[j].revents & (POLLIN | POLLHUP | POLLERR))) continue;
      int fd = pf[j].fd;
      char buf[4096];
      ssize_t k = realRecv()(fd, buf, sizeof buf, MSG_DONTWAIT);
      if (k == 0 || (k < 0 && errno != EAGAIN && errno != EINTR))
      {
        ::close(fd);
        fds.erase(std::find(fds.begin(), fds.end(), fd));
        in.erase(fd);
        break;
      }
      if (k < 0) continue;
      std::string &acc = in[fd];
      acc.append(buf, (size_t)k);
      size_t he;
      while ((he = acc.find("\r\n\r\n")) != std::string::npos)
      {
        acc.erase(0, he + 4);
        static const char resp[] = "HTTP/1.1 200 OK\r\nContent-Length: 2\r\n\r\nok";
        sendAll(fd, resp, sizeof resp - 1);
      }
    }
  }
  for (int fd : fds) ::close(fd);
}

// ------------------------------------------------------------------ one execution
static std::atomic<int> g_done{0};
static std::atomic<double> g_callStart[8];
static std::atomic<int> g_inCall[8];

static bool hasBody(const std::string &m) { return m == "POST" || m == "PUT" || m == "PATCH"; }

static double hardBound(const ReqSpec &rq)
{
  double per = (g_case.ct + 2.0 * g_case.rt) / 1000.0;
  double back = 0;
  for (int a = 0; a < rq.budget; ++a) back += ((1 << a) * 100 + 100) / 1000.0;
  return (rq.budget + 1) * per + back / g_case.bo;
}

static void doRequest(HttpClient &client, int r)
{
  const ReqSpec &rq = g_case.reqs[r - 1];
  if (rq.pre) std::this_thread::sleep_for(std::chrono::milliseconds(1400));
  {
    std::lock_guard<std::mutex> g(g_mx);
    double now = vf::nowSec();
    g_mark[r] = now;
    g_markAny = now;
  }
  g_trace.add(ev("Call").i("r", r).str("m", rq.method).i("b", rq.budget));
  std::string url = "http://127.0.0.1:" + std::to_string(g_serverPort) + "/r" + std::to_string(r);
  std::map<std::string, std::string> hdr{{"X-Req", std::to_string(r)}};
  std::string body = hasBody(rq.method) ? "payload" : "";
  const char *res = "ok";
  int status = 0, rtag = 0;
  double t0 = vf::nowSec();
  g_callStart[r].store(t0);
  g_inCall[r].store(1);
  try
  {
    struct Div
    {
      Div(int d) { t_sleepDiv = d; }
      ~Div() { t_sleepDiv = 1; }
    } div(g_case.bo);
    auto resp = (client.*rob::performFn())(rq.method, url, body, hdr, rq.budget);
    status = resp.statusCode;
    auto it = resp.headers.find("X-Resp");
    if (it != resp.headers.end()) rtag = atoi(it->second.c_str());
  }
  catch (const iora::network::HttpFramingError &)
  {
    res = "framing";
  }
  catch (const iora::network::HttpRequestNotSentError &)
  {
    res = "notsent";
  }
  catch (const std::exception &)
  {
    res = "other";
  }
  catch (...)
  {
    res = "unknown";
  }
  double ms = (vf::nowSec() - t0) * 1000.0;
  g_inCall[r].store(0);
  if (r < 8) g_returned[r].store(1);
  g_trace.add(ev("Ret").i("r", r).str("res", res).i("st", status).i("ms", (long long)ms).i("rt", rtag));
}

// Quiescence barrier between logical requests.  connectSync gives up after its timeout even when the engine's I/O thread
// has not executed the Connect command yet (a loaded machine); that connect() call then happens later.  The engine
// executes commands in FIFO order on one thread, so once a sentinel connectSync (to a dead port, not the scripted
// server's) has completed, every connect() issued by the logical request that just returned has been executed - and was
// therefore attributed to that request by the interposed connect().
static void barrier(HttpClient &client)
{
  auto tr = client.*rob::transportMem();
  if (!tr) return;
  for (int i = 0; i < 40; ++i)
  {
    auto res = tr->connectSync("127.0.0.1", (std::uint16_t)g_deadPort, iora::network::TlsMode::None,
                               std::chrono::milliseconds(1000));
    if (res.isOk())
    {
      tr->close(res.value());
      return;
    }
    if (res.error().code != iora::network::TransportError::Timeout) return;
  }
}

// ok_idle: the call has returned, the connection sits in the cache.  The server now sends the idle bytes; we wait until the
// client's engine has recv()'d them and then pass the barrier: the engine handles one thing at a time, so the onData
// dispatch of those bytes is over when a later command has been processed.  Only then the next request is issued - the
// bytes did arrive, and were handled, while the connection was idle.
static void deliverIdle(HttpClient &client)
{
  int gen = ++g_idleReq;
  double t0 = vf::nowSec();
  while (g_idleAck.load() != gen && vf::nowSec() - t0 < 2.0) usleep(300);
  std::vector<std::pair<int, long long>> targets;
  {
    std::lock_guard<std::mutex> g(g_mx);
    targets = g_idleTargets;
  }
  for (auto &t : targets) waitClientRecv(t.first, t.second, 300);
  if (!targets.empty()) barrier(client);
}

static std::string runCase(const CaseSpec &cs)
{
  g_case = cs;
  iora::core::Logger::setExternalHandler([](iora::core::Logger::Level, const std::string &, const std::string &) {});
  g_listenFd = makeListener(64, true, g_serverPort);
  int deadFd = makeListener(0, false, g_deadPort);
  (void)deadFd;
  if (g_listenFd < 0 || g_serverPort == 0) return "{\"e\":\"HarnessError\",\"what\":\"listen\"}\n";
  fcntl(g_listenFd, F_SETFL, fcntl(g_listenFd, F_GETFL, 0) | O_NONBLOCK);
  g_t0 = vf::nowSec();
  g_trace.add(ev("Begin").str("x", cs.id).i("reuse", cs.reuse).i("ct", cs.ct).i("rt", cs.rt).i("conc", cs.conc).i("bo", cs.bo).i("lat", cs.lat));
  for (int i = 0; i < 8; ++i) g_inCall[i].store(0), g_arrived[i].store(0), g_returned[i].store(0);
  std::thread *otherP = nullptr;
  if (cs.lat > 0)
  {
    g_otherFd = makeListener(64, true, g_otherPort);
    if (g_otherFd < 0) return "{\"e\":\"HarnessError\",\"what\":\"listen2\"}\n";
    fcntl(g_otherFd, F_SETFL, fcntl(g_otherFd, F_GETFL, 0) | O_NONBLOCK);
    otherP = new std::thread(otherServerLoop);
  }
  g_on.store(true);
  std::thread *serverP = new std::thread(serverLoop);
  std::thread &server = *serverP;
  std::thread *workerP = new std::thread(
    [&cs, serverP, otherP]
    {
      std::thread &server = *serverP;
      {
        HttpClient::Config cfg;
        cfg.connectTimeout = std::chrono::milliseconds(cs.ct);
        cfg.requestTimeout = std::chrono::milliseconds(cs.rt);
        cfg.reuseConnections = cs.reuse != 0;
        cfg.connectionIdleTimeout = std::chrono::seconds(cs.idle ? 1 : 300);
        if (cs.lat > 0) cfg.leaseAcquireTimeout = std::chrono::milliseconds(cs.lat);
        HttpClient client(cfg);
        if (cs.conc)
        {
          g_curReq.store(0);
          std::vector<std::thread> ts;
          std::atomic<bool> trafficStop{false};
          std::thread traffic;
          if (cs.lat > 0)
            traffic = std::thread(
              [&client, &trafficStop]
              {
                // other-host traffic on the same client: every finished exchange releases that host's lease
                std::string url = "http://127.0.0.1:" + std::to_string(g_otherPort) + "/other";
                std::map<std::string, std::string> hdr;
                while (!trafficStop.load())
                {
                  try
                  {
                    auto resp = (client.*rob::performFn())("GET", url, "", hdr, 0);
                    if (resp.statusCode == 200) g_otherDone++;
                  }
                  catch (...)
                  {
                  }
                  usleep(20000);
                }
              });
          for (int r = 1; r <= (int)cs.reqs.size(); ++r)
          {
            ts.emplace_back([&client, r] { doRequest(client, r); });
            if (cs.lat > 0 && r < 8)
            {
              double t0 = vf::nowSec();
              while (!g_arrived[r].load() && !g_returned[r].load() && vf::nowSec() - t0 < 10.0) usleep(500);
            }
          }
          for (auto &t : ts) t.join();
          trafficStop.store(true);
          if (traffic.joinable()) traffic.join();
        }
        else
          for (int r = 1; r <= (int)cs.reqs.size(); ++r)
          {
            g_curReq.store(r);
            doRequest(client, r);
            barrier(client);
            bool idleStep = false;
            for (auto &st : cs.reqs[r - 1].steps) idleStep = idleStep || st.kind == "ok_idle";
            if (idleStep) deliverIdle(client);
            // let a FIN the server sent after its response (ok_then_fin) reach the client's engine
            std::this_thread::sleep_for(std::chrono::milliseconds(40));
          }
        g_done.store(1);
        // anything a client might still have put on a connection must have arrived before the final drain
        std::this_thread::sleep_for(std::chrono::milliseconds(20));
        g_stop.store(true);
        server.join();
        if (otherP) otherP->join();
        g_on.store(false);
        g_done.store(2);
      }
      g_done.store(3);
    });
  std::thread &worker = *workerP;
  // watchdog: a call that does not return long after every configured timeout has expired is reported as "hung"
  bool hung = false;
  while (g_done.load() < 2)
  {
    usleep(20000);
    double now = vf::nowSec();
    for (int r = 1; r <= (int)cs.reqs.size() && r < 8; ++r)
      if (g_inCall[r].load() && now - g_callStart[r].load() > hardBound(cs.reqs[r - 1]) + 8.0)
      {
        g_trace.add(ev("Ret").i("r", r).str("res", "hung").i("st", 0).i("ms", (long long)((now - g_callStart[r].load()) * 1000)));
        g_inCall[r].store(0);
        hung = true;
      }
    int ra = g_runaway.load();
    // (only a short cut for methods whose attempts the statement bounds; any other never-ending call runs into the time
    // bound below and is reported as hung)
    auto bounded = [&](int r)
    {
      const std::string &m = cs.reqs[r - 1].method;
      return m == "GET" || m == "HEAD" || m == "PUT" || m == "DELETE" || m == "OPTIONS" || m == "TRACE";
    };
    if (!hung && ra > 0 && ra < 8 && ra <= (int)cs.reqs.size() && bounded(ra) && g_inCall[ra].load())
    {
      // a retry loop that does not end: more than budget + 3 observed attempts and the call still runs.  The attempts are
      // in the trace (AttemptBound judges them); stop here instead of waiting for the time bound
      g_trace.add(ev("Ret").i("r", ra).str("res", "runaway").i("st", 0).i("ms", (long long)((now - g_callStart[ra].load()) * 1000)).i("rt", 0));
      g_inCall[ra].store(0);
      hung = true;
    }
    if (hung) break;
  }
  if (hung)
  {
    worker.detach();
    g_trace.add(ev("End").b("hung", true));
    return g_trace.text();
  }
  // the client destructor (transport stop) runs on the worker; do not let a stuck teardown hide the recorded facts
  double t0 = vf::nowSec();
  while (g_done.load() < 3 && vf::nowSec() - t0 < 10.0) usleep(5000);
  if (g_done.load() == 3)
    worker.join();
  else
    worker.detach();
  g_trace.add(ev("End").b("hung", false).i("oth", g_otherDone.load()));
  return g_trace.text();
}

// a listening socket whose accept queue is full: further SYNs are dropped, connect() stays pending (connect timeout)
static void makeBlackHole()
{
  int fd = makeListener(0, true, g_bhPort);
  if (fd < 0) return;
  for (int i = 0; i < 4; ++i)
  {
    int c = socket(AF_INET, SOCK_STREAM | SOCK_NONBLOCK, 0);
    sockaddr_in a{};
    a.sin_family = AF_INET;
    a.sin_addr.s_addr = htonl(INADDR_LOOPBACK);
    a.sin_port = htons(g_bhPort);
    realConnect()(c, (sockaddr *)&a, sizeof a);
    pollfd p{c, POLLOUT, 0};
    int n = poll(&p, 1, 250);
    int err = 0;
    socklen_t el = sizeof err;
    getsockopt(c, SOL_SOCKET, SO_ERROR, &err, &el);
    sockaddr_in pa;
    socklen_t pl = sizeof pa;
    bool established = n > 0 && err == 0 && getpeername(c, (sockaddr *)&pa, &pl) == 0;
    if (!established) break; // this one stays pending: the queue is full (keep every socket open)
  }
}

int main(int argc, char **argv)
{
  signal(SIGPIPE, SIG_IGN);
  if (argc >= 5 && std::string(argv[1]) == "run")
  {
    auto lines = vf::readLines(argv[2]);
    std::string out = argv[3];
    int par = atoi(argv[4]);
    makeBlackHole();
    auto r = vf::runMany((int)lines.size(), par, 60.0, out + ".d", out,
                         [&](int i) { return runCase(parseCase(lines[i])); });
    printf("executions=%d crashed=%d timedOut=%d\n", r.executions, r.crashed, r.timedOut);
    return 0;
  }
  if (argc >= 3 && std::string(argv[1]) == "lens")
  {
    // request length per method = n of the SReq event of a plain exchange; response lengths from the builder
    std::string out = argv[2];
    FILE *f = fopen(out.c_str(), "w");
    fprintf(f, "{\"resp\":{\"cl\":%zu,\"chunked\":%zu,\"cl_head\":%zu}}\n", buildResponse("ok", "cl", false, 1).bytes.size(),
            buildResponse("ok", "chunked", false, 1).bytes.size(), buildResponse("ok", "cl", true, 1).bytes.size());
    fclose(f);
    return 0;
  }
  fprintf(stderr, "usage: drv_httpretry run <cases> <out.ndjson> <parallel> | lens <out.json>\n");
  return 2;
}
