// C05 / C02 on the REAL engines under the deterministic scheduler: iora::network::Transport::tcp() / udp() over loopback,
// with the engine's own I/O thread a scheduled thread (vf/sched_io.cpp turns its epoll_wait and the futex wait inside
// addListener's std::future::get() into polling loops whose idle iterations are schedule points).  Application threads
// race connect / send / close / addListener / stop / restart / destroy (also from inside a callback) on it; the
// schedule - including where the I/O thread stands inside process(), shutdownDrain() and the command queue - is chosen
// by the scheduler: seeded random, random with unfair time-outs, and a preemption-bounded DFS.
//
//   drv_sio_engine run <cases.txt> <out.ndjson> [parallel]
//   drv_sio_engine dfs "<proto> | <prog>" <preemption bound> <max executions> <out.ndjson> [parallel]
//     case: <tcp|udp|tcpb|udpb> | <prog> | random <seed> | randomt <seed> | replay <plan>      (b = batched I/O loop)
//     prog: main=<ops> ; a=<ops> ; b=<ops>      (main creates + starts the transport and spawns the others; every thread
//                                                holds its own shared_ptr, so "destroy" = the last owner letting go)
//       listen            addListener("127.0.0.1", 0)                 connect      async connect to the first listener
//       connectto:<ip>    async connect to <ip>:9 (e.g. 224.0.0.1, 255.255.255.255: refused inside connect())
//       send:<nth>:<n>    send n bytes on the nth announced session   close:<nth>  close it     (nth = 0: the session this
//                                                                                   thread's last connect returned)
//       peer:<k>          raw loopback socket k connects (TCP) / sends one datagram (UDP) to the first listener
//       psend:<k>:<n>     pclose:<k>
//       csync:<ms>[:dead] connectSync (to the first listener / to a dead port)    mode:<nth>:<sync|async|disabled>
//       recv:<nth>:<len>:<ms>   receiveSync
//       waitn:<n>         spin (schedule points) until n sessions have been announced
//       gauge:<n>         spin until the open-sessions gauge equals n (bounded), then log it
//       waitflag:<f> setflag:<f>
//       stop   start   (repeated cycles)   drop (release this thread's shared_ptr)
//       cbstop            arm: the next close callback calls stop() on the I/O thread (do not combine with cbdrop)
//       cbdrop            arm: the next callback on the I/O thread releases main's shared_ptr (sole owner inside a callback;
//                         use only when no other thread holds one)
//   End of main's ops: join the other threads, stop (if running), drop.
// Events: Begin{proto}
//   Accept{s,as} Connect{s,as} Data{s,n,as} Close{s,as}     as = some stop() of the current run cycle had already returned
//                                                            to a non-callback caller when this callback STARTED
//   ConnCall{t} ConnRet{t,ok,s,af}  SendCall{t,s} SendRet{t,s,ok,af}  CloseCall{t,s} CloseRet{t,s,ok,af}
//   SyncConnCall{t,to} SyncConnRet{t,ok,s,af}  ModeCall{t,s} ModeRet{t,s,ok}  RecvCall{t,s,to} RecvRet{t,s,ok,n,af}
//   ListenCall{t} ListenRet{t,ok,af}                          af = the call BEGAN after such a stop() had returned
//   Gauge{t,g,want}   LifeCall{t,op} LifeRet{t,op,ok}   End{outcome,stuck,steps,bw}    bw = write() calls that hit a closed descriptor
#include "iora/network/transport.hpp"
#include "iora/network/transport_impl.hpp"
#include "vf/exec.hpp"
#include "vf/sched.hpp"
#include "vf/trace.hpp"

#include <algorithm>
#include <arpa/inet.h>
#include <map>
#include <random>
#include <memory>
#include <netinet/in.h>
#include <set>
#include <fcntl.h>
#include <poll.h>
#include <sys/socket.h>
#include <unistd.h>

using namespace iora::network;

struct OpSpec
{
  std::vector<std::string> f;
};
struct ThreadProg
{
  std::string name;
  std::vector<OpSpec> ops;
};

static std::vector<ThreadProg> parseProg(const std::string &s)
{
  std::vector<ThreadProg> out;
  for (auto &part : vf::split(s, ';'))
  {
    std::string p;
    for (auto &x : vf::words(part)) p += x;
    if (p.empty()) continue;
    auto eq = p.find('=');
    ThreadProg tp;
    tp.name = p.substr(0, eq);
    if (eq != std::string::npos)
      for (auto &o : vf::split(p.substr(eq + 1), ','))
        if (!o.empty()) tp.ops.push_back({vf::split(o, ':')});
    out.push_back(tp);
  }
  return out;
}

struct World
{
  vf::Trace tr;
  std::string proto;
  bool isTcp() const { return proto.compare(0, 3, "tcp") == 0; }
  std::vector<ThreadProg> prog;
  // one registered thread runs at a time; the spin lock only keeps the (unscheduled) sanitizer runtimes quiet
  std::atomic_flag lk = ATOMIC_FLAG_INIT;
  std::vector<SessionId> announced;
  std::map<std::string, std::shared_ptr<Transport>> owner; // per thread name
  std::map<std::string, std::atomic<bool> *> flags;
  std::map<int, int> peers;
  std::atomic<bool> stopReturned{false};
  std::atomic<bool> cbDropArmed{false};
  std::atomic<bool> cbStopArmed{false};
  std::atomic<std::atomic<bool> *> cbWait{nullptr};
  Transport *rawForCb = nullptr; // valid while some owner exists (cbstop programs keep main's reference until the end)
  std::atomic<int> port{0};
  std::atomic<int> holePort{0};  // a loopback listener whose accept queue is full and never drained: SYNs to it are dropped
  std::vector<int> holeFds;
  std::atomic<bool> running{false};
  void lock()
  {
    while (lk.test_and_set(std::memory_order_acquire))
    {
    }
  }
  void unlock() { lk.clear(std::memory_order_release); }
  void ann(SessionId s)
  {
    lock();
    announced.push_back(s);
    unlock();
  }
  size_t nAnn()
  {
    lock();
    size_t n = announced.size();
    unlock();
    return n;
  }
  SessionId nth(int n)
  {
    lock();
    SessionId s = (n >= 1 && n <= (int)announced.size()) ? announced[n - 1] : 0;
    unlock();
    return s;
  }
  std::atomic<bool> &flag(const std::string &f) { return *flags.at(f); }
  void prepareFlags()
  {
    for (auto &tp : prog)
      for (auto &o : tp.ops)
        if ((o.f[0] == "waitflag" || o.f[0] == "setflag") && o.f.size() > 1 && !flags.count(o.f[1]))
          flags[o.f[1]] = new std::atomic<bool>(false);
  }
};

static void dropOwner(World *w, const std::string &who, const char *logAs)
{
  std::shared_ptr<Transport> mine;
  w->lock();
  auto it = w->owner.find(who);
  if (it != w->owner.end())
  {
    mine = std::move(it->second);
    w->owner.erase(it);
  }
  w->unlock();
  if (!mine) return;
  bool last = mine.use_count() == 1;
  w->tr.add(vf::Ev("LifeCall").str("t", logAs).str("op", last ? "destroy" : "drop"));
  mine.reset();
  w->tr.add(vf::Ev("LifeRet").str("t", logAs).str("op", last ? "destroy" : "drop").b("ok", true));
}

static void installCallbacks(World *w, Transport *t)
{
  auto maybeDrop = [w]()
  {
    bool e = true;
    if (w->cbDropArmed.compare_exchange_strong(e, false)) dropOwner(w, "main", "io");
  };
  t->onAccept(
    [w](SessionId s, const TransportAddress &)
    {
      bool as = w->stopReturned.load(std::memory_order_acquire);
      w->ann(s);
      w->tr.add(vf::Ev("Accept").i("s", (long long)s).b("as", as));
    });
  t->onConnect(
    [w](SessionId s, const TransportAddress &)
    {
      bool as = w->stopReturned.load(std::memory_order_acquire);
      w->ann(s);
      w->tr.add(vf::Ev("Connect").i("s", (long long)s).b("as", as));
    });
  t->onData(
    [w, maybeDrop](SessionId s, iora::core::BufferView d, std::chrono::steady_clock::time_point)
    {
      bool as = w->stopReturned.load(std::memory_order_acquire);
      w->tr.add(vf::Ev("Data").i("s", (long long)s).i("n", (long long)d.size()).b("as", as));
      // cbwait:<flag>: a slow application callback - the I/O thread stays in here until the flag is set
      std::atomic<bool> *hold = w->cbWait.exchange(nullptr);
      if (hold)
        while (!hold->load()) sched_yield();
      maybeDrop();
    });
  t->onClose(
    [w, maybeDrop](SessionId s, const TransportErrorInfo &)
    {
      bool as = w->stopReturned.load(std::memory_order_acquire);
      w->tr.add(vf::Ev("Close").i("s", (long long)s).b("as", as));
      bool e = true;
      if (w->cbStopArmed.compare_exchange_strong(e, false) && w->rawForCb)
      {
        // stop() from inside one of the transport's own callbacks (possibly while another thread's stop() is joining us)
        w->tr.add(vf::Ev("LifeCall").str("t", "io").str("op", "stop_in_cb"));
        w->rawForCb->stop();
        w->tr.add(vf::Ev("LifeRet").str("t", "io").str("op", "stop_in_cb").b("ok", true));
      }
      maybeDrop();
    });
}

static void appOps(World *w, const ThreadProg &tp)
{
  Transport *t;
  {
    w->lock();
    auto it = w->owner.find(tp.name);
    t = it == w->owner.end() ? nullptr : it->second.get();
    w->unlock();
  }
  SessionId mine = 0;
  auto sidOf = [&](const std::string &a) -> SessionId
  {
    int n = atoi(a.c_str());
    return n == 0 ? mine : w->nth(n);
  };
  for (auto &o : tp.ops)
  {
    const std::string &op = o.f[0];
    if (op == "waitflag")
    {
      while (!w->flag(o.f[1]).load()) sched_yield();
      continue;
    }
    if (op == "setflag")
    {
      w->flag(o.f[1]).store(true);
      continue;
    }
    if (op == "waitn")
    {
      size_t n = (size_t)atoi(o.f[1].c_str());
      for (int spins = 0; w->nAnn() < n && spins < 300; ++spins) sched_yield();
      continue;
    }
    if (op == "peer")
    {
      int k = atoi(o.f[1].c_str());
      int fd = socket(AF_INET, w->isTcp() ? SOCK_STREAM : SOCK_DGRAM, 0);
      sockaddr_in sa{};
      sa.sin_family = AF_INET;
      sa.sin_port = htons((uint16_t)w->port.load());
      inet_pton(AF_INET, "127.0.0.1", &sa.sin_addr);
      int rc = connect(fd, (sockaddr *)&sa, sizeof sa);
      if (rc == 0 && !w->isTcp())
      {
        char c = 'x';
        (void)!write(fd, &c, 1);
      }
      w->lock();
      w->peers[k] = fd;
      w->unlock();
      w->tr.add(vf::Ev("Peer").i("k", k).b("ok", rc == 0));
      continue;
    }
    if (op == "psend" || op == "pclose" || op == "preset")
    {
      int k = atoi(o.f[1].c_str());
      w->lock();
      int fd = w->peers.count(k) ? w->peers[k] : -1;
      if (op == "pclose") w->peers.erase(k);
      w->unlock();
      if (fd < 0) continue;
      if (op == "preset")
      {
        // the peer resets the connection; its descriptor NUMBER stays taken (so that the next socket the engine opens gets the
        // number the engine itself has just released, not this one)
        linger lg{1, 0};
        setsockopt(fd, SOL_SOCKET, SO_LINGER, &lg, sizeof lg);
        int nul = open("/dev/null", O_RDONLY);
        dup2(nul, fd);
        close(nul);
        continue;
      }
      if (op == "psend")
      {
        std::string buf((size_t)atoi(o.f[2].c_str()), 'p');
        (void)!send(fd, buf.data(), buf.size(), MSG_DONTWAIT | MSG_NOSIGNAL);
      }
      else
        close(fd);
      continue;
    }
    if (op == "hole")
    {
      // a black hole on loopback: listen(fd, 0), fill the accept queue, never accept - a further connect stays in SYN_SENT
      int lfd = socket(AF_INET, SOCK_STREAM, 0);
      sockaddr_in sa{};
      sa.sin_family = AF_INET;
      inet_pton(AF_INET, "127.0.0.1", &sa.sin_addr);
      bool ok = bind(lfd, (sockaddr *)&sa, sizeof sa) == 0 && listen(lfd, 0) == 0;
      socklen_t sl = sizeof sa;
      getsockname(lfd, (sockaddr *)&sa, &sl);
      w->holeFds.push_back(lfd);
      bool hangs = false;
      for (int i = 0; ok && i < 8 && !hangs; ++i)
      {
        int c = socket(AF_INET, SOCK_STREAM | SOCK_NONBLOCK, 0);
        w->holeFds.push_back(c);
        int rc = connect(c, (sockaddr *)&sa, sizeof sa);
        if (rc != 0 && errno == EINPROGRESS)
        {
          pollfd pf{c, POLLOUT, 0};
          hangs = ::poll(&pf, 1, 60) == 0; // (real time: loopback completes a handshake in microseconds)
        }
      }
      if (ok && hangs) w->holePort.store(ntohs(sa.sin_port));
      w->tr.add(vf::Ev("Hole").b("ok", ok && hangs));
      continue;
    }
    if (op == "pdrain")
    {
      // the raw peer reads everything that is there (the session's socket becomes writable again)
      int k = atoi(o.f[1].c_str());
      w->lock();
      int fd = w->peers.count(k) ? w->peers[k] : -1;
      w->unlock();
      if (fd < 0) continue;
      std::vector<char> buf(1 << 20);
      long long tot = 0;
      for (int idle = 0; idle < 3;)
      {
        ssize_t n = recv(fd, buf.data(), buf.size(), MSG_DONTWAIT);
        if (n > 0)
        {
          tot += n;
          idle = 0;
        }
        else
        {
          ++idle;
        }
      }
      w->tr.add(vf::Ev("PDrain").i("k", k).i("n", tot));
      continue;
    }
    if (op == "sleep")
    {
      std::this_thread::sleep_for(std::chrono::milliseconds(atoi(o.f[1].c_str()))); // virtual time
      continue;
    }
    if (op == "spin")
    {
      for (int i = 0, n = atoi(o.f[1].c_str()); i < n; ++i) sched_yield();
      continue;
    }
    if (op == "gauge")
    {
      // let the engine settle (schedule points), then sample the open-sessions gauge: it must have reached <n>
      long want = atol(o.f[1].c_str());
      long g = -1;
      if (t)
        for (int spins = 0; spins < 400; ++spins)
        {
          g = (long)t->getStats().sessionsCurrent;
          if (g == want) break;
          sched_yield();
        }
      w->tr.add(vf::Ev("Gauge").str("t", tp.name).i("g", g).i("want", want));
      continue;
    }
    if (op == "cbdrop")
    {
      w->cbDropArmed.store(true);
      continue;
    }
    if (op == "cbwait")
    {
      w->cbWait.store(&w->flag(o.f[1]));
      continue;
    }
    if (op == "cbstop")
    {
      w->cbStopArmed.store(true);
      continue;
    }
    if (op == "drop")
    {
      vf::point("call");
      dropOwner(w, tp.name, tp.name.c_str());
      t = nullptr;
      continue;
    }
    if (!t) continue; // this thread has let go of the transport (or main's reference was released inside a callback)
    if (tp.name == "main")
    {
      // main's reference may have been released by the I/O thread (cbdrop): then main must not touch the object any more
      w->lock();
      bool have = w->owner.count("main") > 0;
      w->unlock();
      if (!have)
      {
        t = nullptr;
        continue;
      }
    }
    vf::point("call");
    bool af = w->stopReturned.load(std::memory_order_acquire);
    if (op == "listen")
    {
      w->tr.add(vf::Ev("ListenCall").str("t", tp.name));
      auto r = t->addListener("127.0.0.1", 0, TlsMode::None);
      if (r.isOk() && w->port.load() == 0 && t->isRunning())
      {
        auto a = t->getListenerAddress(r.value());
        if (a.port) w->port.store(a.port);
      }
      w->tr.add(vf::Ev("ListenRet").str("t", tp.name).b("ok", r.isOk()).b("af", af));
    }
    else if (op == "connect" || op == "connectto")
    {
      // connectto:<ip>: an address the kernel refuses inside the connect() call itself (multicast, broadcast, no route)
      w->tr.add(vf::Ev("ConnCall").str("t", tp.name));
      // connectto:hole: the black hole (op "hole") - the handshake can never complete
      bool hole = op == "connectto" && o.f[1] == "hole";
      auto r = op == "connect" ? t->connect("127.0.0.1", (uint16_t)w->port.load(), TlsMode::None)
               : hole          ? t->connect("127.0.0.1", (uint16_t)w->holePort.load(), TlsMode::None)
                               : t->connect(o.f[1], 9, TlsMode::None);
      if (r.isOk()) mine = r.value();
      w->tr.add(vf::Ev("ConnRet").str("t", tp.name).b("ok", r.isOk()).i("s", r.isOk() ? (long long)r.value() : 0).b("af", af).b("nc", w->isTcp() && hole && w->holePort.load() != 0));
    }
    else if (op == "csync")
    {
      // connectSync to the first listener, or (csync:<ms>:dead) to a loopback port nobody listens on
      long to = o.f.size() > 1 ? atol(o.f[1].c_str()) : 100000;
      bool dead = o.f.size() > 2 && o.f[2] == "dead";
      bool hole = o.f.size() > 2 && o.f[2] == "hole" && w->holePort.load() != 0;
      w->tr.add(vf::Ev("SyncConnCall").str("t", tp.name).i("to", to));
      auto r = t->connectSync("127.0.0.1", dead ? (uint16_t)1 : hole ? (uint16_t)w->holePort.load() : (uint16_t)w->port.load(), TlsMode::None,
                              std::chrono::milliseconds(to));
      if (r.isOk()) mine = r.value();
      // nc: no handshake with this target can complete (TCP only: nobody listens / SYNs are dropped; a UDP connect has no handshake)
      w->tr.add(vf::Ev("SyncConnRet").str("t", tp.name).b("ok", r.isOk()).i("s", r.isOk() ? (long long)r.value() : 0).b("af", af).b("nc", w->isTcp() && (dead || hole)));
    }
    else if (op == "mode")
    {
      SessionId s = sidOf(o.f[1]);
      if (!s) continue;
      ReadMode m = o.f[2] == "sync" ? ReadMode::Sync : o.f[2] == "async" ? ReadMode::Async : ReadMode::Disabled;
      w->tr.add(vf::Ev("ModeCall").str("t", tp.name).i("s", (long long)s));
      bool ok = t->setReadMode(s, m);
      w->tr.add(vf::Ev("ModeRet").str("t", tp.name).i("s", (long long)s).b("ok", ok));
    }
    else if (op == "recv")
    {
      SessionId s = sidOf(o.f[1]);
      if (!s) continue;
      std::size_t len = (std::size_t)atoi(o.f[2].c_str());
      long to = o.f.size() > 3 ? atol(o.f[3].c_str()) : 100000;
      std::vector<char> buf(len ? len : 1);
      w->tr.add(vf::Ev("RecvCall").str("t", tp.name).i("s", (long long)s).i("to", to));
      auto r = t->receiveSync(s, buf.data(), len, std::chrono::milliseconds(to));
      w->tr.add(vf::Ev("RecvRet").str("t", tp.name).i("s", (long long)s).b("ok", r.isOk()).i("n", r.isOk() ? (long long)len : 0).b("af", af));
    }
    else if (op == "send")
    {
      SessionId s = sidOf(o.f[1]);
      if (!s) continue;
      std::string buf((size_t)atoi(o.f[2].c_str()), 'a');
      w->tr.add(vf::Ev("SendCall").str("t", tp.name).i("s", (long long)s));
      bool ok = t->send(s, iora::core::BufferView(reinterpret_cast<const std::uint8_t *>(buf.data()), buf.size()));
      w->tr.add(vf::Ev("SendRet").str("t", tp.name).i("s", (long long)s).b("ok", ok).b("af", af));
    }
    else if (op == "addr")
    {
      // address queries: public operations that READ the engine's session map on an application thread
      SessionId s = sidOf(o.f[1]);
      if (!s) continue;
      auto ra = t->getRemoteAddress(s);
      auto la = t->getLocalAddress(s);
      w->tr.add(vf::Ev("Addr").str("t", tp.name).i("s", (long long)s).b("known", ra.port != 0 || la.port != 0));
    }
    else if (op == "close")
    {
      SessionId s = sidOf(o.f[1]);
      if (!s) continue;
      w->tr.add(vf::Ev("CloseCall").str("t", tp.name).i("s", (long long)s));
      bool ok = t->close(s);
      w->tr.add(vf::Ev("CloseRet").str("t", tp.name).i("s", (long long)s).b("ok", ok).b("af", af));
    }
    else if (op == "stop")
    {
      w->tr.add(vf::Ev("LifeCall").str("t", tp.name).str("op", "stop"));
      t->stop();
      w->stopReturned.store(true, std::memory_order_release);
      w->running.store(false);
      w->tr.add(vf::Ev("LifeRet").str("t", tp.name).str("op", "stop").b("ok", true));
    }
    else if (op == "start")
    {
      w->tr.add(vf::Ev("LifeCall").str("t", tp.name).str("op", "start"));
      w->stopReturned.store(false, std::memory_order_release); // a new run cycle begins
      w->port.store(0);                                         // ... whose listeners are new ones (the old port is dead)
      bool ok = t->start().isOk();
      if (ok) w->running.store(true);
      w->tr.add(vf::Ev("LifeRet").str("t", tp.name).str("op", "start").b("ok", ok));
    }
  }
}

static std::string runOne(const std::string &proto, const std::vector<ThreadProg> &prog, const vf::Options &opt, bool emitSched)
{
  iora::core::Logger::setLevel(iora::core::Logger::Level::Fatal);
  auto w = std::make_shared<World>();
  w->proto = proto;
  w->prog = prog;
  w->prepareFlags();
  w->tr.add(vf::Ev("Begin").str("proto", proto));
  vf::Options o = opt;
  o.maxSteps = 20000;
  o.watchdogMs = 8000;
  o.pointAfterUnlock = true;
  o.earliestDeadlineFirst = true;
  vf::reset(o);
  vf::resetBadFdWrites();
  vf::spawn("main",
            [w, proto]()
            {
              vf::point("construct");
              TransportConfig cfg;
              cfg.batching.enabled = proto.size() > 3 && proto[3] == 'b'; // "tcpb" / "udpb": the batched I/O loop
              auto t = proto.compare(0, 3, "tcp") == 0 ? Transport::tcp(cfg) : Transport::udp(cfg);
              installCallbacks(w.get(), t.get());
              for (auto &tp : w->prog) w->owner[tp.name] = t;
              if (!w->owner.count("main")) w->owner["main"] = t;
              Transport *raw = t.get();
              w->rawForCb = raw;
              t.reset();
              vf::nameNextChild("io");
              bool ok = raw->start().isOk();
              w->running.store(ok);
              w->tr.add(vf::Ev("LifeCall").str("t", "main").str("op", "start"));
              w->tr.add(vf::Ev("LifeRet").str("t", "main").str("op", "start").b("ok", ok));
              std::vector<std::thread> others;
              const ThreadProg *mainProg = nullptr;
              for (auto &tp : w->prog)
              {
                if (tp.name == "main")
                {
                  mainProg = &tp;
                  continue;
                }
                vf::nameNextChild(tp.name);
                others.emplace_back([w, &tp]() { appOps(w.get(), tp); });
              }
              if (mainProg) appOps(w.get(), *mainProg);
              for (auto &th : others) th.join();
              // the other threads let go first (none of them is the last owner unless main's reference is gone already)
              for (auto &tp : w->prog)
                if (tp.name != "main") dropOwner(w.get(), tp.name, tp.name.c_str());
              vf::point("call");
              std::shared_ptr<Transport> mine;
              w->lock();
              if (w->owner.count("main")) mine = w->owner["main"];
              w->unlock();
              if (mine)
              {
                if (mine->isRunning())
                {
                  w->tr.add(vf::Ev("LifeCall").str("t", "main").str("op", "stop"));
                  mine->stop();
                  w->stopReturned.store(true, std::memory_order_release);
                  w->tr.add(vf::Ev("LifeRet").str("t", "main").str("op", "stop").b("ok", true));
                }
                mine.reset();
                dropOwner(w.get(), "main", "main");
              }
              w->lock();
              for (auto &kv : w->peers) close(kv.second);
              w->peers.clear();
              for (int fd : w->holeFds) close(fd);
              w->holeFds.clear();
              w->unlock();
            });
  vf::Result r = vf::run();
  const char *oc = r.outcome == vf::Outcome::Done        ? "done"
                   : r.outcome == vf::Outcome::Stuck     ? "stuck"
                   : r.outcome == vf::Outcome::StepLimit ? "steplimit"
                                                         : "external";
  w->tr.add(vf::Ev("End").str("outcome", oc).strs("stuck", r.stuck).i("steps", (long long)r.steps.size()).i("bw", vf::badFdWrites()));
  std::string text = w->tr.text();
  if (emitSched)
  {
    std::string s = "#S";
    for (auto &st : r.steps)
    {
      s += " " + st.thread + ":";
      for (size_t i = 0; i < st.enabled.size(); ++i) s += (i ? "," : "") + std::to_string(st.enabled[i]);
      s += ":" + std::to_string(st.tid);
    }
    text += s + "\n";
  }
  return text;
}

static vf::Options parsePolicy(const std::vector<std::string> &w)
{
  vf::Options o;
  if (!w.empty() && (w[0] == "random" || w[0] == "randomt"))
  {
    o.policy = vf::Policy::Random;
    o.seed = w.size() > 1 ? strtoull(w[1].c_str(), nullptr, 10) : 1;
    if (w[0] == "randomt")
    {
      o.timeoutsOnlyWhenIdle = false;
      o.timeoutPermille = 150; // here "low priority" = the polling I/O thread and spinning waiters: let them run early
    }
  }
  else
  {
    o.policy = vf::Policy::Replay;
    if (!w.empty()) o.plan.assign(w.begin() + 1, w.end());
  }
  return o;
}

static int cmdRun(int argc, char **argv)
{
  auto lines = vf::readLines(argv[2]);
  int par = argc > 4 ? atoi(argv[4]) : 8;
  struct Case
  {
    std::string proto;
    std::vector<ThreadProg> prog;
    vf::Options opt;
  };
  std::vector<Case> cases;
  for (auto &ln : lines)
  {
    auto parts = vf::split(ln, '|');
    if (parts.size() < 3) continue;
    Case c;
    c.proto = vf::words(parts[0])[0];
    c.prog = parseProg(parts[1]);
    c.opt = parsePolicy(vf::words(parts[2]));
    cases.push_back(std::move(c));
  }
  auto res = vf::runMany((int)cases.size(), par, 90.0, std::string(argv[3]) + ".d", argv[3],
                         [&](int i) { return runOne(cases[i].proto, cases[i].prog, cases[i].opt, false); });
  printf("executions=%d crashed=%d timedout=%d\n", res.executions, res.crashed, res.timedOut);
  return 0;
}

static int cmdDfs(int argc, char **argv)
{
  if (argc < 6) return 2;
  auto parts = vf::split(argv[2], '|');
  std::string proto = vf::words(parts[0])[0];
  auto prog = parseProg(parts[1]);
  int bound = atoi(argv[3]);
  int maxExec = atoi(argv[4]);
  std::string outPath = argv[5];
  int par = argc > 6 ? atoi(argv[6]) : 8;
  struct Node
  {
    std::vector<std::string> prefix;
    int pre;
  };
  std::vector<Node> wave{{{}, 0}};
  std::set<std::vector<std::string>> seen;
  FILE *out = fopen(outPath.c_str(), "w");
  int total = 0;
  bool truncated = false;
  while (!wave.empty() && total < maxExec)
  {
    if ((int)wave.size() > maxExec - total)
    {
      std::shuffle(wave.begin(), wave.end(), std::mt19937(12345u + (unsigned)total));
      wave.resize(maxExec - total);
      truncated = true;
    }
    std::string tmp = outPath + ".wave";
    vf::runMany((int)wave.size(), par, 90.0, outPath + ".d", tmp,
                [&](int i)
                {
                  vf::Options o;
                  o.policy = vf::Policy::Prefix;
                  o.plan = wave[i].prefix;
                  return runOne(proto, prog, o, true);
                });
    auto lines = vf::readLines(tmp);
    unlink(tmp.c_str());
    std::vector<Node> nextWave;
    int idx = 0;
    for (auto &ln : lines)
    {
      if (ln.rfind("#S", 0) == 0)
      {
        auto w = vf::words(ln.substr(2));
        std::vector<std::string> chosen;
        std::vector<int> chosenId;
        std::vector<std::vector<int>> en;
        std::map<int, std::string> nameOf;
        for (auto &e : w)
        {
          auto f = vf::split(e, ':');
          chosen.push_back(f[0]);
          std::vector<int> v;
          for (auto &x : vf::split(f[1], ','))
            if (!x.empty()) v.push_back(atoi(x.c_str()));
          en.push_back(v);
          int id = atoi(f[2].c_str());
          chosenId.push_back(id);
          nameOf[id] = f[0];
        }
        const Node &nd = wave[idx];
        int pre = 0;
        for (size_t k = 0; k < chosen.size(); ++k)
        {
          bool prevEnabled = false;
          if (k > 0)
            for (int x : en[k])
              if (x == chosenId[k - 1]) prevEnabled = true;
          if (k >= nd.prefix.size())
            for (int alt : en[k])
            {
              if (alt == chosenId[k] || !nameOf.count(alt)) continue;
              int cost = pre + ((k > 0 && prevEnabled && alt != chosenId[k - 1]) ? 1 : 0);
              if (cost > bound) continue;
              std::vector<std::string> p(chosen.begin(), chosen.begin() + k);
              p.push_back(nameOf[alt]);
              if (seen.insert(p).second) nextWave.push_back({p, cost});
            }
          if (k > 0 && prevEnabled && chosenId[k] != chosenId[k - 1]) ++pre;
        }
        continue;
      }
      fprintf(out, "%s\n", ln.c_str());
      if (ln.find("\"e\":\"Reset\"") != std::string::npos) ++idx;
    }
    total += (int)wave.size();
    wave.swap(nextWave);
  }
  if (!wave.empty()) truncated = true;
  fclose(out);
  printf("executions=%d truncated=%d\n", total, truncated ? 1 : 0);
  return 0;
}

int main(int argc, char **argv)
{
  if (argc < 4) return 2;
  std::string cmd = argv[1];
  if (cmd == "run") return cmdRun(argc, argv);
  if (cmd == "dfs") return cmdDfs(argc, argv);
  return 2;
}
