// Extra [X10]: iora::network::HealthMonitor / ConnectionHealth (network/connection_health.hpp) replayed along TLC behaviours of
// spec/extra/ConnHealth.tla under the scheduler's virtual clock, and small concurrent programs on one HealthMonitor.
//
//   drv_s_connhealth seq  <cases.txt> <out.ndjson> [parallel]
//       cases.txt:  first line   C <hb>:<to>:<max>:<en> <hb>:<to>:<max>:<en> ...   (configurations 1..n, seconds; from the specification)
//                   second line  N <number of ids>                                   (ids 1..N)
//                   then one execution per line: tokens  +i add  -i remove  ai activity  fi failure  si success  uc updateConfig(c)  t tick (1 s)
//       The monitor is constructed with configuration 1.  Besides the monitor a stand-alone ConnectionHealth per id mirrors
//       the operations (created at +i with the monitor's current configuration, destroyed at -i, updateConfig at uc) so that
//       the per-connection accessors (getState, getStats, isHealthy, needsHeartbeat, isTimedOut) are observed as well; the
//       monitor is observed through getUnhealthyConnections / getConnectionsNeedingHeartbeat / getOverallStats.
//       Events: Begin{cfgs,n}  Add|Remove|Activity|Failure|Success{id,...obs}  UpdateConfig{c,...obs}  Tick{...obs}
//         obs = v:[{p,st,st2,cf,ok,ko,idle(ms),h,hb,to,rm(ppm)} per id]  un:[ids]  hbl:[ids]  ov:[total,H,W,D,C,U]  orm(ppm)
//   drv_s_connhealth conc <cases.txt> <out.ndjson> [parallel]
//       same two header lines, then:  <setup tokens> | a=tok,tok,..;b=.. | random <seed>  |  prefix <thread> <thread> ...
//       thread tokens: the ones above plus  qu (getUnhealthyConnections)  qh (getConnectionsNeedingHeartbeat)  qo (getOverallStats)
//       Events: Begin  Setup ops as above (single thread)  Call{t,op,id|c}  Ret{t,op[,un|hbl|ov,orm]}  CTick  Final{...monitor obs}  End{outcome}
//   drv_s_connhealth dfs <cases.txt: header + ONE conc line (schedule part ignored)> <preemption bound> <max executions> <out.ndjson> [parallel]
#include "iora/network/connection_health.hpp"
#include "vf/exec.hpp"
#include "vf/sched.hpp"
#include "vf/trace.hpp"
#include <algorithm>
#include <cmath>
#include <cstring>
#include <map>
#include <memory>
#include <random>
#include <set>
#include <thread>
using namespace iora::network;

struct Setup
{
  std::vector<HealthConfig> cfg; // 1-based
  std::string cfgJson;
  int n = 2;
};
static const char *sname(ConnectionState s)
{
  switch (s)
  {
  case ConnectionState::Healthy: return "Healthy";
  case ConnectionState::Warning: return "Warning";
  case ConnectionState::Degraded: return "Degraded";
  case ConnectionState::Critical: return "Critical";
  case ConnectionState::Unhealthy: return "Unhealthy";
  }
  return "?";
}
static const char *outcomeName(vf::Outcome o)
{
  return o == vf::Outcome::Done ? "done" : o == vf::Outcome::Stuck ? "stuck" : o == vf::Outcome::StepLimit ? "steplimit" : "external";
}
static long long ppm(double r) { return std::llround(r * 1000000.0); }
static std::string idList(std::vector<SessionId> v)
{
  std::sort(v.begin(), v.end());
  std::string s = "[";
  for (size_t i = 0; i < v.size(); ++i) s += (i ? "," : "") + std::to_string((long long)v[i]);
  return s + "]";
}
static std::string ovJson(const HealthMonitor::OverallStats &o)
{
  return "[" + std::to_string(o.totalConnections) + "," + std::to_string(o.healthyConnections) + "," + std::to_string(o.warningConnections) + "," +
         std::to_string(o.degradedConnections) + "," + std::to_string(o.criticalConnections) + "," + std::to_string(o.unhealthyConnections) + "]";
}
static void monitorObs(vf::Ev &ev, const HealthMonitor &mon)
{
  ev.raw("un", idList(mon.getUnhealthyConnections()));
  ev.raw("hbl", idList(mon.getConnectionsNeedingHeartbeat()));
  auto o = mon.getOverallStats();
  ev.raw("ov", ovJson(o)).i("orm", ppm(o.overallSuccessRate));
}
struct Tok
{
  char k = 0; // + - a f s u t q
  int arg = 0;
  char q = 0; // u h o for queries
};
static Tok parseTok(const std::string &w)
{
  Tok t;
  t.k = w[0];
  if (t.k == 'q')
    t.q = w.size() > 1 ? w[1] : 'o';
  else if (w.size() > 1)
    t.arg = atoi(w.c_str() + 1);
  return t;
}
static const char *evName(char k)
{
  switch (k)
  {
  case '+': return "Add";
  case '-': return "Remove";
  case 'a': return "Activity";
  case 'f': return "Failure";
  case 's': return "Success";
  case 'u': return "UpdateConfig";
  case 't': return "Tick";
  }
  return "?";
}

// ---- sequential: monitor + mirrored stand-alone ConnectionHealth objects, full observation after every operation
struct SeqWorld
{
  const Setup &S;
  HealthMonitor mon;
  std::vector<std::unique_ptr<ConnectionHealth>> sh;
  int cur = 1;
  explicit SeqWorld(const Setup &s) : S(s), mon(s.cfg[1]), sh(s.n + 1) {}
  void apply(const Tok &t)
  {
    SessionId id = (SessionId)t.arg;
    bool known = t.arg >= 1 && t.arg <= S.n;
    switch (t.k)
    {
    case '+':
      mon.addConnection(id);
      if (known) sh[t.arg] = std::make_unique<ConnectionHealth>(S.cfg[cur]);
      break;
    case '-':
      mon.removeConnection(id);
      if (known) sh[t.arg].reset();
      break;
    case 'a':
      mon.recordActivity(id);
      if (known && sh[t.arg]) sh[t.arg]->recordActivity();
      break;
    case 'f':
      mon.recordFailure(id);
      if (known && sh[t.arg]) sh[t.arg]->recordFailure();
      break;
    case 's':
      mon.recordSuccess(id);
      if (known && sh[t.arg]) sh[t.arg]->recordSuccess();
      break;
    case 'u':
      cur = t.arg;
      mon.updateConfig(S.cfg[cur]);
      for (auto &p : sh)
        if (p) p->updateConfig(S.cfg[cur]);
      break;
    case 't': std::this_thread::sleep_for(std::chrono::seconds(1)); break;
    }
  }
  void log(vf::Trace &tr, const Tok &t)
  {
    vf::Ev ev(evName(t.k));
    if (t.k == 'u')
      ev.i("c", t.arg);
    else if (t.k != 't')
      ev.i("id", t.arg);
    std::string v = "[";
    for (int i = 1; i <= S.n; ++i)
    {
      if (i > 1) v += ",";
      if (!sh[i])
      {
        v += "{\"p\":false}";
        continue;
      }
      auto &h = *sh[i];
      auto st = h.getStats();
      vf::Ev o("-"); // reuse the field writers; strip the {"e":"-" prefix below
      o.b("p", true).str("st", sname(h.getState())).str("st2", sname(st.state)).i("cf", st.consecutiveFailures).i("ok", (long long)st.totalSuccesses)
          .i("ko", (long long)st.totalFailures).i("idle", (long long)st.timeSinceLastActivity.count()).b("h", h.isHealthy()).b("hb", h.needsHeartbeat())
          .b("to", h.isTimedOut()).i("rm", ppm(st.successRate));
      std::string s = o.done();
      v += "{" + s.substr(strlen("{\"e\":\"-\","));
    }
    v += "]";
    ev.raw("v", v);
    monitorObs(ev, mon);
    tr.add(ev);
  }
};
static std::string runSeq(const Setup &S, const std::vector<std::string> &ops)
{
  auto tr = std::make_shared<vf::Trace>();
  tr->add(vf::Ev("Begin").raw("cfgs", S.cfgJson).i("n", S.n));
  vf::Options o;
  o.policy = vf::Policy::Random;
  o.maxSteps = 100000;
  o.watchdogMs = 25000;
  vf::reset(o);
  vf::spawn("main",
            [tr, &ops, &S]()
            {
              vf::point("start");
              SeqWorld w(S);
              for (auto &op : ops)
              {
                Tok t = parseTok(op);
                w.apply(t);
                w.log(*tr, t);
              }
            });
  vf::Result r = vf::run();
  if (r.outcome != vf::Outcome::Done) tr->add(vf::Ev("End").str("outcome", outcomeName(r.outcome)));
  return tr->text();
}

// ---- concurrent: threads call the monitor only; Call/Ret events, linearization is searched by the trace specification
struct TP
{
  std::string name;
  std::vector<Tok> ops;
};
struct ConcCase
{
  std::vector<std::string> setup;
  std::vector<TP> prog;
  vf::Options opt;
};
static std::string runConc(const Setup &S, const ConcCase &c, const vf::Options &opt, bool emitSched)
{
  auto tr = std::make_shared<vf::Trace>();
  tr->add(vf::Ev("Begin").raw("cfgs", S.cfgJson).i("n", S.n));
  vf::Options o = opt;
  o.maxSteps = 20000;
  o.watchdogMs = 25000;
  vf::reset(o);
  vf::spawn("main",
            [tr, &c, &S]()
            {
              vf::point("start");
              SeqWorld w(S); // the mirrors are only used (and logged) during the single-threaded set-up
              for (auto &op : c.setup)
              {
                Tok t = parseTok(op);
                w.apply(t);
                w.log(*tr, t);
              }
              HealthMonitor &mon = w.mon;
              std::vector<std::thread> th;
              for (auto &tp : c.prog)
              {
                vf::nameNextChild(tp.name);
                th.emplace_back(
                    [tr, &mon, &tp, &S]()
                    {
                      for (auto &t : tp.ops)
                      {
                        vf::point("call");
                        if (t.k == 't')
                        {
                          // one second passes: no schedule point between the clock step and the log line
                          vf::advanceVirtualNs(1000000000LL);
                          tr->add(vf::Ev("CTick"));
                          continue;
                        }
                        std::string opn(1, t.k);
                        if (t.k == 'q') opn += t.q;
                        vf::Ev call("Call");
                        call.str("t", tp.name).str("op", opn).i("x", t.arg);
                        tr->add(call);
                        vf::Ev ret("Ret");
                        ret.str("t", tp.name).str("op", opn);
                        SessionId id = (SessionId)t.arg;
                        switch (t.k)
                        {
                        case '+': mon.addConnection(id); break;
                        case '-': mon.removeConnection(id); break;
                        case 'a': mon.recordActivity(id); break;
                        case 'f': mon.recordFailure(id); break;
                        case 's': mon.recordSuccess(id); break;
                        case 'u': mon.updateConfig(S.cfg[t.arg]); break;
                        case 'q':
                          if (t.q == 'u')
                            ret.raw("un", idList(mon.getUnhealthyConnections()));
                          else if (t.q == 'h')
                            ret.raw("hbl", idList(mon.getConnectionsNeedingHeartbeat()));
                          else
                          {
                            auto ov = mon.getOverallStats();
                            ret.raw("ov", ovJson(ov)).i("orm", ppm(ov.overallSuccessRate));
                          }
                          break;
                        }
                        tr->add(ret);
                      }
                    });
              }
              for (auto &t : th) t.join();
              vf::Ev fin("Final");
              monitorObs(fin, mon);
              tr->add(fin);
            });
  vf::Result r = vf::run();
  tr->add(vf::Ev("End").str("outcome", outcomeName(r.outcome)));
  std::string text = tr->text();
  if (emitSched)
  {
    std::string s = "#S";
    for (auto &st : r.steps)
    {
      s += " " + std::to_string(st.tid) + ":";
      for (size_t i = 0; i < st.enabled.size(); ++i) s += (i ? "," : "") + std::to_string(st.enabled[i]);
    }
    s += "\n#N";
    std::map<int, std::string> names;
    for (auto &st : r.steps) names[st.tid] = st.thread;
    for (auto &kv : names) s += " " + std::to_string(kv.first) + "=" + kv.second;
    text += s + "\n";
  }
  return text;
}

static bool readSetup(const std::vector<std::string> &lines, Setup &S, size_t &first)
{
  S.cfg.clear();
  S.cfg.push_back(HealthConfig{});
  S.cfgJson = "[";
  first = 0;
  for (; first < lines.size(); ++first)
  {
    auto w = vf::words(lines[first]);
    if (w.empty()) continue;
    if (w[0] == "C")
    {
      for (size_t i = 1; i < w.size(); ++i)
      {
        auto f = vf::split(w[i], ':');
        if (f.size() != 4) return false;
        HealthConfig c;
        c.heartbeatInterval = std::chrono::seconds(atoi(f[0].c_str()));
        c.timeoutThreshold = std::chrono::seconds(atoi(f[1].c_str()));
        c.maxConsecutiveFailures = atoi(f[2].c_str());
        c.enableHeartbeat = atoi(f[3].c_str()) != 0;
        S.cfg.push_back(c);
        S.cfgJson += std::string(i > 1 ? "," : "") + "[" + f[0] + "," + f[1] + "," + f[2] + "," + (c.enableHeartbeat ? "1" : "0") + "]";
      }
    }
    else if (w[0] == "N" && w.size() > 1)
      S.n = atoi(w[1].c_str());
    else
      break;
  }
  S.cfgJson += "]";
  return S.cfg.size() > 1 && S.n >= 1;
}
static bool parseConc(const std::string &ln, ConcCase &c)
{
  auto parts = vf::split(ln, '|');
  if (parts.size() < 2) return false;
  c.setup = vf::words(parts[0]);
  std::string p;
  for (auto &x : vf::words(parts[1])) p += x;
  for (auto &pp : vf::split(p, ';'))
  {
    auto eq = pp.find('=');
    if (eq == std::string::npos) continue;
    TP tp;
    tp.name = pp.substr(0, eq);
    for (auto &x : vf::split(pp.substr(eq + 1), ','))
      if (!x.empty()) tp.ops.push_back(parseTok(x));
    c.prog.push_back(tp);
  }
  c.opt.policy = vf::Policy::Random;
  c.opt.seed = 1;
  if (parts.size() > 2)
  {
    auto w = vf::words(parts[2]);
    if (!w.empty() && w[0] == "random")
      c.opt.seed = w.size() > 1 ? strtoull(w[1].c_str(), nullptr, 10) : 1;
    else if (!w.empty() && (w[0] == "prefix" || w[0] == "replay"))
    {
      c.opt.policy = w[0] == "prefix" ? vf::Policy::Prefix : vf::Policy::Replay;
      c.opt.plan.assign(w.begin() + 1, w.end());
    }
  }
  return !c.prog.empty();
}

// stateless DFS with a preemption bound over the schedules of one concurrent program (same scheme as drv_bq)
static int cmdDfs(const Setup &S, const ConcCase &c, int bound, int maxExec, const std::string &outPath, int par)
{
  struct Node
  {
    std::vector<int> prefix;
    int preemptions;
  };
  std::vector<Node> wave{{{}, 0}};
  std::set<std::vector<int>> seen;
  FILE *out = fopen(outPath.c_str(), "w");
  if (!out) return 2;
  int total = 0;
  bool truncated = false;
  std::map<int, std::string> nameOf;
  nameOf[0] = "main";
  while (!wave.empty() && total < maxExec)
  {
    if ((int)wave.size() > maxExec - total)
    {
      std::shuffle(wave.begin(), wave.end(), std::mt19937(12345u + (unsigned)total));
      wave.resize(maxExec - total);
      truncated = true;
    }
    std::string tmp = outPath + ".wave";
    vf::runMany((int)wave.size(), par, 60.0, outPath + ".d", tmp,
                [&](int i)
                {
                  vf::Options o;
                  o.policy = vf::Policy::Prefix;
                  for (int id : wave[i].prefix) o.plan.push_back(nameOf.count(id) ? nameOf[id] : std::string("?"));
                  return runConc(S, c, o, true);
                });
    auto lines = vf::readLines(tmp);
    unlink(tmp.c_str());
    std::vector<Node> nextWave;
    int idx = 0;
    for (auto &ln : lines)
    {
      if (ln.rfind("#N", 0) == 0)
      {
        for (auto &e : vf::words(ln.substr(2)))
        {
          auto q = e.find('=');
          if (q != std::string::npos) nameOf[atoi(e.substr(0, q).c_str())] = e.substr(q + 1);
        }
        continue;
      }
      if (ln.rfind("#S", 0) == 0)
      {
        auto w = vf::words(ln.substr(2));
        std::vector<int> chosen;
        std::vector<std::vector<int>> en;
        for (auto &e : w)
        {
          auto q = e.find(':');
          chosen.push_back(atoi(e.substr(0, q).c_str()));
          std::vector<int> v;
          for (auto &x : vf::split(e.substr(q + 1), ','))
            if (!x.empty()) v.push_back(atoi(x.c_str()));
          en.push_back(v);
        }
        const Node &nd = wave[idx];
        int pre = 0;
        for (size_t k = 0; k < chosen.size(); ++k)
        {
          bool prevEnabled = false;
          if (k > 0)
            for (int x : en[k])
              if (x == chosen[k - 1]) prevEnabled = true;
          if (k >= nd.prefix.size())
          {
            for (int alt : en[k])
            {
              if (alt == chosen[k]) continue;
              int cost = pre + ((k > 0 && prevEnabled && alt != chosen[k - 1]) ? 1 : 0);
              if (cost > bound) continue;
              std::vector<int> p(chosen.begin(), chosen.begin() + k);
              p.push_back(alt);
              if (seen.insert(p).second) nextWave.push_back({p, cost});
            }
          }
          if (k > 0 && prevEnabled && chosen[k] != chosen[k - 1]) ++pre;
        }
        continue;
      }
      fprintf(out, "%s\n", ln.c_str());
      if (ln.find("\"e\":\"Reset\"") != std::string::npos) ++idx;
    }
    total += (int)wave.size();
    wave.swap(nextWave);
  }
  if (!wave.empty()) truncated = true;
  fclose(out);
  printf("executions=%d truncated=%d\n", total, truncated ? 1 : 0);
  return 0;
}

int main(int argc, char **argv)
{
  if (argc < 4) return 2;
  std::string cmd = argv[1];
  auto lines = vf::readLines(argv[2]);
  Setup S;
  size_t first = 0;
  if (!readSetup(lines, S, first))
  {
    fprintf(stderr, "bad header in %s\n", argv[2]);
    return 2;
  }
  if (cmd == "seq")
  {
    int par = argc > 4 ? atoi(argv[4]) : 8;
    std::vector<std::vector<std::string>> cases;
    for (size_t i = first; i < lines.size(); ++i) cases.push_back(vf::words(lines[i]));
    auto res = vf::runMany((int)cases.size(), par, 60.0, std::string(argv[3]) + ".d", argv[3], [&](int i) { return runSeq(S, cases[i]); });
    printf("executions=%d crashed=%d timedout=%d\n", res.executions, res.crashed, res.timedOut);
    return 0;
  }
  if (cmd == "conc")
  {
    int par = argc > 4 ? atoi(argv[4]) : 8;
    std::vector<ConcCase> cases;
    for (size_t i = first; i < lines.size(); ++i)
    {
      ConcCase c;
      if (!parseConc(lines[i], c))
      {
        fprintf(stderr, "bad case line %zu\n", i + 1);
        return 2;
      }
      cases.push_back(std::move(c));
    }
    auto res = vf::runMany((int)cases.size(), par, 60.0, std::string(argv[3]) + ".d", argv[3], [&](int i) { return runConc(S, cases[i], cases[i].opt, false); });
    printf("executions=%d crashed=%d timedout=%d\n", res.executions, res.crashed, res.timedOut);
    return 0;
  }
  if (cmd == "dfs")
  {
    if (argc < 6 || first >= lines.size()) return 2;
    ConcCase c;
    if (!parseConc(lines[first], c)) return 2;
    return cmdDfs(S, c, atoi(argv[3]), atoi(argv[4]), argv[5], argc > 6 ? atoi(argv[6]) : 8);
  }
  return 2;
}
