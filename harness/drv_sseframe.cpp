// Extra X12 (framing half): the real SseStream::formatEvent / formatComment / formatRetry on generator cases.
//   drv_sseframe run <cases.txt> <out.ndjson>
//   case:  event <name bytes> | <data bytes>     comment | <text bytes>     retry | <digits>      (bytes = decimal codes, space separated)
// Events: Case{kind,name,data,out}   (all byte sequences as arrays of small integers); Reset every 200 cases.
// name / payload are handed over as string_views on EXACT-SIZE heap buffers (no terminator): an over-read is an ASan report.
#include "iora/network/sse_stream.hpp"
#include "vf/exec.hpp"
#include "vf/trace.hpp"
#include <cstring>
#include <memory>
using iora::network::SseStream;
struct Buf
{
  char *p;
  size_t n;
  explicit Buf(const std::vector<int> &v) : p((char *)malloc(v.size() ? v.size() : 1)), n(v.size())
  {
    for (size_t i = 0; i < v.size(); ++i) p[i] = (char)v[i];
    if (v.empty())
    {
      free(p);
      p = nullptr; // a null, zero-length view
    }
  }
  ~Buf() { free(p); }
  std::string_view sv() const { return std::string_view(p, n); }
};
static std::vector<int> ints(const std::string &s)
{
  std::vector<int> o;
  for (auto &w : vf::words(s)) o.push_back(atoi(w.c_str()));
  return o;
}
int main(int argc, char **argv)
{
  if (argc < 4 || std::string(argv[1]) != "run") return 2;
  auto lines = vf::readLines(argv[2]);
  FILE *out = fopen(argv[3], "w");
  int k = 0;
  for (auto &ln : lines)
  {
    auto parts = vf::split(ln, '|');
    if (parts.size() < 2) continue;
    auto head = vf::words(parts[0]);
    if (head.empty()) continue;
    std::string kind = head[0];
    std::vector<int> name(0), data = ints(parts[1]);
    for (size_t i = 1; i < head.size(); ++i) name.push_back(atoi(head[i].c_str()));
    std::string o;
    Buf nb(name), db(data);
    if (kind == "event")
      o = SseStream::formatEvent(nb.sv(), db.sv());
    else if (kind == "comment")
      o = SseStream::formatComment(db.sv());
    else
    {
      unsigned long v = 0;
      for (int d : data) v = v * 10 + (unsigned long)(d - '0');
      o = SseStream::formatRetry((std::uint32_t)v);
    }
    std::vector<int> ob;
    for (unsigned char c : o) ob.push_back(c);
    vf::Ev ev("Case");
    ev.str("kind", kind).ints("name", name.begin(), name.end()).ints("data", data.begin(), data.end()).ints("out", ob.begin(), ob.end());
    fprintf(out, "%s\n", ev.done().c_str());
    if (++k % 200 == 0) fprintf(out, "{\"e\":\"Reset\"}\n");
  }
  fclose(out);
  printf("cases=%d\n", k);
  return 0;
}
