// C06 conformance driver: replays behaviours of spec/transport/UdpPeers.tla on the real iora::network::UdpEngine
// over loopback, with raw UDP sockets as peers, and records the observable events for spec/transport/UdpTrace.tla.
//
//   drv_udp run <cases.txt> <out.ndjson> <parallel>
//
// case line:   cap=<n> et=<0|1> batch=<0|1> wq=<n> ; STEP ; STEP ; ...
//   DG <peer> <lid> <z>        raw peer sends one datagram of size class z (s=1, m=1472, l=65507) to listener lid
//   CDG <peer> <msid> <z>      raw peer sends one datagram to the socket of client session msid
//   CONNECT <peer>             engine.connect(peer address)
//   VIA <lid> <peer>           engine.connectViaListener(lid, peer address)
//   SEND <msid> <z>            engine.send(session, payload)        SENDERR: the next send()/sendto() on its socket fails
//   CLOSE <msid>               engine.close(session)
//   BLOCKL <lid> / UNBLOCKL <lid> / BLOCKC <msid> / UNBLOCKC <msid>   the kernel answers EAGAIN on that socket / stops doing so
//   ADV                        the idle timeout passes (virtual CLOCK_MONOTONIC + 601 s)
//   GC                         the GC timer fires now
// msid = the n-th session created in this execution (accept callbacks and connect calls, in order) — the numbering of
// the model.  Real session ids are what is logged.
//
// The run is sequential: every step waits for quiescence (a synchronous in-band barrier command through the engine's
// command queue, the bytesIn / gcRuns counters, and receipt of every datagram the kernel accepted) before the next.
// Interposition (definitions in this executable win over libc): send/sendto (EAGAIN / error injection per socket,
// observation of every datagram handed to the kernel), clock_gettime (virtual CLOCK_MONOTONIC offset for the idle
// timeout), timerfd_create (to fire the GC timer on demand).
#include "iora/network/detail/udp_engine.hpp"
#include "vf/exec.hpp"
#include "vf/trace.hpp"

#include <dlfcn.h>
#include <poll.h>

using namespace iora::network;

// ------------------------------------------------------------------------------------------------ shared state
static vf::Trace g_trace;
// Held by the driver from an engine call (connect, connectViaListener, send) until the line recording its result is
// logged; I/O-thread observers (connect/close callbacks, the send wrappers) take it before logging, so that "the call
// returned" always precedes its consequences in the log.
static std::atomic_flag g_callLk = ATOMIC_FLAG_INIT;
static void lockCall()
{
  while (g_callLk.test_and_set(std::memory_order_acquire))
  {
  }
}
static void unlockCall() { g_callLk.clear(std::memory_order_release); }
static std::atomic<bool> g_logging{false};
static std::atomic<long> g_monoOff{0};
static std::atomic<int> g_timerFd{-1};
static std::atomic<int> g_len[256];

struct SockCtl
{
  std::atomic<unsigned long long> key{0}; // (ipv4 addr << 16) | port, network order pieces
  std::atomic<int> mode{0};               // 0 pass, 1 EAGAIN
  std::atomic<int> errOnce{0};
  std::atomic<long> eagains{0};
  std::atomic<long> realCalls{0};
  char name[16]{};
};
static SockCtl g_socks[64];
static std::atomic<int> g_nsocks{0};

struct PeerInfo
{
  std::string name;
  int fd = -1;
  sockaddr_in addr{};
  std::atomic<long> expect{0};
  long got = 0;
};
static PeerInfo g_peers[2];
static int g_npeers = 2;

static unsigned long long keyOf(const sockaddr_in &a) { return ((unsigned long long)a.sin_addr.s_addr << 16) | a.sin_port; }

static SockCtl *lookupFd(int fd)
{
  int n = g_nsocks.load(std::memory_order_acquire);
  if (n == 0) return nullptr;
  sockaddr_storage ss{};
  socklen_t sl = sizeof ss;
  if (::getsockname(fd, (sockaddr *)&ss, &sl) != 0 || ss.ss_family != AF_INET) return nullptr;
  unsigned long long k = keyOf(*(sockaddr_in *)&ss);
  for (int i = 0; i < n; ++i)
    if (g_socks[i].key.load() == k) return &g_socks[i];
  return nullptr;
}
static SockCtl *registerSock(const sockaddr_in &a, const std::string &name)
{
  int i = g_nsocks.load();
  g_socks[i].key = keyOf(a);
  snprintf(g_socks[i].name, sizeof g_socks[i].name, "%s", name.c_str());
  g_nsocks.store(i + 1, std::memory_order_release);
  return &g_socks[i];
}
static SockCtl *sockByName(const std::string &name)
{
  int n = g_nsocks.load();
  for (int i = 0; i < n; ++i)
    if (name == g_socks[i].name) return &g_socks[i];
  return nullptr;
}
static int peerOfAddr(const sockaddr_in &a)
{
  for (int i = 0; i < g_npeers; ++i)
    if (g_peers[i].addr.sin_port == a.sin_port && g_peers[i].addr.sin_addr.s_addr == a.sin_addr.s_addr) return i;
  return -1;
}

// payload id: byte 0 is the id (1..255), every other byte a function of (id, offset)
static void genPayload(int id, size_t n, std::vector<std::uint8_t> &b)
{
  b.resize(n);
  for (size_t i = 0; i < n; ++i) b[i] = (std::uint8_t)(id * 131 + i * 7 + (i >> 8) * 13 + 1);
  if (n) b[0] = (std::uint8_t)id;
}
static bool checkPayload(const std::uint8_t *b, size_t n, int &id)
{
  id = n ? b[0] : 0;
  if (n == 0 || id == 0 || g_len[id].load() != (int)n) return false;
  for (size_t i = 1; i < n; ++i)
    if (b[i] != (std::uint8_t)(id * 131 + i * 7 + (i >> 8) * 13 + 1)) return false;
  return true;
}

// ------------------------------------------------------------------------------------------------ interposition
typedef ssize_t (*sendto_t)(int, const void *, size_t, int, const sockaddr *, socklen_t);
typedef ssize_t (*send_t)(int, const void *, size_t, int);
typedef int (*cgt_t)(clockid_t, struct timespec *);
typedef int (*tfc_t)(int, int);
static sendto_t realSendto()
{
  static sendto_t f = (sendto_t)dlsym(RTLD_NEXT, "sendto");
  return f;
}
static send_t realSend()
{
  static send_t f = (send_t)dlsym(RTLD_NEXT, "send");
  return f;
}

static ssize_t engineSend(SockCtl *sc, int fd, const void *buf, size_t n, int flags, const sockaddr *to, socklen_t tl)
{
  if (sc->errOnce.exchange(0))
  {
    errno = ENETUNREACH;
    return -1;
  }
  if (sc->mode.load() == 1)
  {
    sc->eagains++;
    usleep(150); // the kernel still reports the socket writable, so the engine polls: damp the spin
    errno = EAGAIN;
    return -1;
  }
  sockaddr_in dst{};
  bool haveDst = false;
  if (to && tl >= sizeof(sockaddr_in) && to->sa_family == AF_INET)
  {
    dst = *(const sockaddr_in *)to;
    haveDst = true;
  }
  else if (!to)
  {
    socklen_t sl = sizeof dst;
    haveDst = ::getpeername(fd, (sockaddr *)&dst, &sl) == 0;
  }
  ssize_t r = to ? realSendto()(fd, buf, n, flags, to, tl) : realSend()(fd, buf, n, flags);
  sc->realCalls++;
  if (r >= 0)
  {
    int id = 0;
    bool ok = checkPayload((const std::uint8_t *)buf, n, id) && (size_t)r == n;
    int p = haveDst ? peerOfAddr(dst) : -1;
    lockCall();
    unlockCall();
    if (g_logging.load())
      g_trace.add(vf::Ev("Out").str("sock", sc->name).str("to", p >= 0 ? g_peers[p].name : "?").i("id", id).i("len", (long)n).b("ok", ok));
    if (p >= 0) g_peers[p].expect++;
  }
  return r;
}

extern "C" ssize_t sendto(int fd, const void *buf, size_t n, int flags, const sockaddr *to, socklen_t tl)
{
  SockCtl *sc = lookupFd(fd);
  if (!sc) return realSendto()(fd, buf, n, flags, to, tl);
  return engineSend(sc, fd, buf, n, flags, to, tl);
}
extern "C" ssize_t send(int fd, const void *buf, size_t n, int flags)
{
  SockCtl *sc = lookupFd(fd);
  if (!sc) return realSend()(fd, buf, n, flags);
  return engineSend(sc, fd, buf, n, flags, nullptr, 0);
}
extern "C" int clock_gettime(clockid_t c, struct timespec *ts)
{
  static cgt_t f = (cgt_t)dlsym(RTLD_NEXT, "clock_gettime");
  int r = f(c, ts);
  if (r == 0 && c == CLOCK_MONOTONIC) ts->tv_sec += g_monoOff.load();
  return r;
}
extern "C" int timerfd_create(int clockid, int flags)
{
  static tfc_t f = (tfc_t)dlsym(RTLD_NEXT, "timerfd_create");
  int fd = f(clockid, flags);
  g_timerFd = fd;
  return fd;
}

// ------------------------------------------------------------------------------------------------ one execution
static size_t sizeOf(const std::string &z) { return z == "s" ? 1 : z == "m" ? 1472 : 65507; }

struct Exec
{
  std::unique_ptr<UdpEngine> eng;
  std::vector<SessionId> msid;             // model session number -> real session id (creation order)
  std::map<SessionId, std::string> sockOf; // real sid -> socket name ("L1" / "C<sid>")
  std::map<SessionId, sockaddr_in> cliAddr;
  std::map<SessionId, bool> closed;
  vf::Ev *dummy = nullptr;
  std::atomic_flag lk = ATOMIC_FLAG_INIT;
  std::atomic<int> nConnect{0}, nClose{0};
  int curLid = 0; // listener the datagram in flight was sent to (for sockOf of an accepted session)
  std::map<int, ListenerId> lids;
  std::map<int, sockaddr_in> laddr;
  int nextId = 1;
  bool infra = false;

  void lock()
  {
    while (lk.test_and_set(std::memory_order_acquire))
    {
    }
  }
  void unlock() { lk.clear(std::memory_order_release); }

  static std::string peerName(const TransportAddress &a)
  {
    sockaddr_in sa{};
    sa.sin_family = AF_INET;
    sa.sin_port = htons(a.port);
    inet_pton(AF_INET, a.host.c_str(), &sa.sin_addr);
    int p = peerOfAddr(sa);
    return p >= 0 ? g_peers[p].name : "?";
  }

  void barrier() { (void)eng->addListener("!", 0, TlsMode::None); }

  void infraEv(const char *why)
  {
    infra = true;
    g_trace.add(vf::Ev("Infra").str("why", why));
  }

  bool waitUntil(const std::function<bool()> &f, double sec)
  {
    double t0 = vf::nowSec();
    while (!f())
    {
      if (vf::nowSec() - t0 > sec) return false;
      usleep(200);
    }
    return true;
  }

  void drainPeers(bool wait)
  {
    double t0 = vf::nowSec();
    std::vector<std::uint8_t> buf(70000);
    for (;;)
    {
      bool missing = false;
      for (int i = 0; i < g_npeers; ++i)
      {
        for (;;)
        {
          sockaddr_in from{};
          socklen_t fl = sizeof from;
          ssize_t n = ::recvfrom(g_peers[i].fd, buf.data(), buf.size(), MSG_DONTWAIT, (sockaddr *)&from, &fl);
          if (n < 0) break;
          int id = 0;
          bool ok = checkPayload(buf.data(), (size_t)n, id);
          g_peers[i].got++;
          g_trace.add(vf::Ev("PeerRecv").str("p", g_peers[i].name).i("id", id).i("len", (long)n).b("ok", ok));
        }
        if (g_peers[i].got < g_peers[i].expect.load()) missing = true;
      }
      if (!missing || !wait) return;
      if (vf::nowSec() - t0 > 5.0)
      {
        infraEv("datagram accepted by the kernel did not reach the peer socket within 5 s");
        return;
      }
      usleep(200);
    }
  }

  SessionId realSid(const std::string &tok)
  {
    int k = atoi(tok.c_str());
    lock();
    SessionId r = (k >= 1 && k <= (int)msid.size()) ? msid[k - 1] : 0;
    unlock();
    return r;
  }
  bool isClosed(SessionId s)
  {
    lock();
    bool c = closed.count(s) != 0;
    unlock();
    return c;
  }

  // the kernel accepts writes again; while the engine holds queued datagrams it keeps polling the socket, so its next
  // real write follows promptly: wait for it (bounded; nothing in the oracle depends on this wait), then for the handler
  void unblock(SockCtl *sc, SessionId sid)
  {
    long calls = sc->realCalls.load();
    long eag = sc->eagains.exchange(0);
    sc->mode = 0;
    if (eag > 0 && !(sid && isClosed(sid))) waitUntil([&] { return sc->realCalls.load() != calls; }, 0.3);
    barrier();
  }

  std::string run(const std::string &line)
  {
    auto parts = vf::split(line, ';');
    TransportConfig cfg;
    cfg.protocol = Protocol::UDP;
    cfg.gcInterval = std::chrono::seconds(86400); // the GC timer fires only when the behaviour says so
    long cap = 0;
    for (auto &w : vf::words(parts[0]))
    {
      auto kv = vf::split(w, '=');
      if (kv.size() != 2) continue;
      long v = atol(kv[1].c_str());
      if (kv[0] == "cap") cfg.maxSessions = (std::size_t)(cap = v);
      if (kv[0] == "et") cfg.useEdgeTriggered = v != 0;
      if (kv[0] == "batch") cfg.batching.enabled = v != 0;
      if (kv[0] == "wq") cfg.maxWriteQueue = (std::size_t)v;
    }
    // raw peers: p1 = 127.0.0.1:X, p2 = 127.0.0.2:X (same port, different address) when possible
    for (int i = 0; i < g_npeers; ++i)
    {
      g_peers[i].name = "p" + std::to_string(i + 1);
      g_peers[i].fd = ::socket(AF_INET, SOCK_DGRAM, 0);
      sockaddr_in a{};
      a.sin_family = AF_INET;
      a.sin_addr.s_addr = inet_addr(i == 0 ? "127.0.0.1" : "127.0.0.2");
      a.sin_port = i == 0 ? 0 : g_peers[0].addr.sin_port;
      if (::bind(g_peers[i].fd, (sockaddr *)&a, sizeof a) != 0)
      {
        a.sin_port = 0;
        if (::bind(g_peers[i].fd, (sockaddr *)&a, sizeof a) != 0) return "{\"e\":\"Infra\",\"why\":\"peer bind\"}\n";
      }
      socklen_t sl = sizeof a;
      ::getsockname(g_peers[i].fd, (sockaddr *)&a, &sl);
      g_peers[i].addr = a;
      int rb = 4 << 20;
      ::setsockopt(g_peers[i].fd, SOL_SOCKET, SO_RCVBUF, &rb, sizeof rb);
    }
    eng = std::make_unique<UdpEngine>(cfg);
    detail::EngineBase::Callbacks cbs{};
    cbs.onAccept = [this](SessionId sid, const TransportAddress &a)
    {
      lock();
      msid.push_back(sid);
      sockOf[sid] = "L" + std::to_string(curLid);
      unlock();
      if (g_logging.load()) g_trace.add(vf::Ev("Accept").i("sid", (long)sid).str("p", peerName(a)));
    };
    cbs.onConnect = [this](SessionId sid, const TransportAddress &a)
    {
      lockCall();
      if (g_logging.load()) g_trace.add(vf::Ev("Connect").i("sid", (long)sid).str("p", peerName(a)));
      unlockCall();
      nConnect++;
    };
    cbs.onData = [](SessionId sid, iora::core::BufferView d, std::chrono::steady_clock::time_point)
    {
      int id = 0;
      bool ok = checkPayload((const std::uint8_t *)d.data(), d.size(), id);
      if (g_logging.load()) g_trace.add(vf::Ev("Data").i("sid", (long)sid).i("id", id).i("len", (long)d.size()).b("ok", ok));
    };
    cbs.onClose = [this](SessionId sid, const TransportErrorInfo &)
    {
      lock();
      closed[sid] = true;
      unlock();
      lockCall();
      if (g_logging.load()) g_trace.add(vf::Ev("Close").i("sid", (long)sid));
      unlockCall();
      nClose++;
    };
    cbs.onError = [](TransportError, const std::string &) {};
    eng->setCallbacks(std::move(cbs));
    if (!eng->start().isOk()) return "{\"e\":\"Infra\",\"why\":\"engine start\"}\n";
    for (int l = 1; l <= 2; ++l)
    {
      auto lr = eng->addListener("127.0.0.1", 0, TlsMode::None);
      if (!lr.isOk()) return "{\"e\":\"Infra\",\"why\":\"addListener\"}\n";
      lids[l] = lr.value();
      auto la = eng->getListenerAddress(lr.value());
      sockaddr_in a{};
      a.sin_family = AF_INET;
      a.sin_port = htons(la.port);
      a.sin_addr.s_addr = inet_addr("127.0.0.1");
      laddr[l] = a;
      registerSock(a, "L" + std::to_string(l));
    }
    g_logging = true;
    g_trace.add(vf::Ev("Begin").i("cap", cap).i("et", cfg.useEdgeTriggered).i("batch", cfg.batching.enabled).i("wq", (long)cfg.maxWriteQueue));

    for (size_t si = 1; si < parts.size() && !infra; ++si)
    {
      auto w = vf::words(parts[si]);
      if (w.empty()) continue;
      const std::string &op = w[0];
      if (op == "DG" || op == "CDG")
      {
        int p = atoi(w[1].c_str() + 1) - 1;
        size_t n = sizeOf(w[3]);
        sockaddr_in dst{};
        int lid = 0;
        SessionId csid = 0;
        if (op == "DG")
        {
          lid = atoi(w[2].c_str());
          dst = laddr[lid];
          curLid = lid;
        }
        else
        {
          csid = realSid(w[2]);
          if (!csid || isClosed(csid) || !cliAddr.count(csid))
          {
            g_trace.add(vf::Ev("Skip").str("step", parts[si]));
            continue;
          }
          dst = cliAddr[csid];
        }
        int id = nextId++;
        g_len[id] = (int)n;
        std::vector<std::uint8_t> b;
        genPayload(id, n, b);
        auto before = eng->getStats().bytesIn;
        g_trace.add(vf::Ev("PeerSend").str("p", g_peers[p].name).i("lid", lid).i("csid", (long)csid).i("id", id).i("len", (long)n));
        ssize_t r = realSendto()(g_peers[p].fd, b.data(), n, 0, (sockaddr *)&dst, sizeof dst);
        if (r != (ssize_t)n)
        {
          infraEv("raw peer sendto failed");
          break;
        }
        if (!waitUntil([&] { return eng->getStats().bytesIn != before; }, 5.0))
        {
          infraEv("the engine did not read the datagram within 5 s");
          break;
        }
        barrier();
      }
      else if (op == "CONNECT" || op == "VIA")
      {
        int p = atoi((op == "CONNECT" ? w[1] : w[2]).c_str() + 1) - 1;
        char host[32];
        inet_ntop(AF_INET, &g_peers[p].addr.sin_addr, host, sizeof host);
        lockCall();
        ConnectResult cr = op == "CONNECT" ? eng->connect(host, ntohs(g_peers[p].addr.sin_port), TlsMode::None)
                                           : eng->connectViaListener(lids[atoi(w[1].c_str())], host, ntohs(g_peers[p].addr.sin_port));
        if (!cr.isOk())
        {
          unlockCall();
          infraEv("connect call refused");
          break;
        }
        SessionId sid = cr.value();
        lock();
        msid.push_back(sid);
        sockOf[sid] = op == "CONNECT" ? "C" + std::to_string(sid) : "L" + w[1];
        unlock();
        g_trace.add(vf::Ev("ConnCall").i("sid", (long)sid).str("p", g_peers[p].name));
        unlockCall();
        barrier();
        if (op == "CONNECT" && !isClosed(sid))
        {
          auto la = eng->getLocalAddress(sid);
          sockaddr_in a{};
          a.sin_family = AF_INET;
          a.sin_port = htons(la.port);
          inet_pton(AF_INET, la.host.c_str(), &a.sin_addr);
          cliAddr[sid] = a;
          registerSock(a, "C" + std::to_string(sid));
        }
      }
      else if (op == "SEND" || op == "SENDERR")
      {
        SessionId sid = realSid(w[1]);
        if (!sid)
        {
          g_trace.add(vf::Ev("Skip").str("step", parts[si]));
          continue;
        }
        size_t n = sizeOf(w[2]);
        int id = nextId++;
        g_len[id] = (int)n;
        std::vector<std::uint8_t> b;
        genPayload(id, n, b);
        SockCtl *sc = nullptr;
        if (op == "SENDERR")
        {
          lock();
          std::string sn = sockOf[sid];
          unlock();
          sc = sockByName(sn);
          if (sc) sc->errOnce = 1;
        }
        lockCall();
        bool acc = eng->send(sid, b.data(), n);
        g_trace.add(vf::Ev("Send").i("sid", (long)sid).i("id", id).i("len", (long)n).b("acc", acc));
        unlockCall();
        barrier();
        if (sc) sc->errOnce = 0;
      }
      else if (op == "CLOSE")
      {
        SessionId sid = realSid(w[1]);
        if (!sid)
        {
          g_trace.add(vf::Ev("Skip").str("step", parts[si]));
          continue;
        }
        eng->close(sid);
        barrier();
      }
      else if (op == "BLOCKL" || op == "BLOCKC" || op == "UNBLOCKL" || op == "UNBLOCKC")
      {
        std::string sn;
        SessionId sid = 0;
        if (op.back() == 'L')
          sn = "L" + w[1];
        else
        {
          sid = realSid(w[1]);
          sn = "C" + std::to_string(sid);
        }
        SockCtl *sc = sockByName(sn);
        if (!sc)
        {
          g_trace.add(vf::Ev("Skip").str("step", parts[si]));
          continue;
        }
        if (op[0] == 'B')
          sc->mode = 1;
        else
          unblock(sc, sid);
      }
      else if (op == "ADV")
      {
        g_monoOff += 601;
      }
      else if (op == "GC")
      {
        auto before = eng->getStats().gcRuns;
        itimerspec its{};
        its.it_value.tv_nsec = 1;
        ::timerfd_settime(g_timerFd.load(), 0, &its, nullptr);
        if (!waitUntil([&] { return eng->getStats().gcRuns != before; }, 5.0))
        {
          infraEv("the GC timer did not run within 5 s");
          break;
        }
        barrier();
      }
      else
      {
        infraEv("unknown step");
        break;
      }
      drainPeers(true);
      g_trace.add(vf::Ev("Settled"));
    }
    if (!infra)
    {
      // let every queued datagram go out, then stop observing
      int n = g_nsocks.load();
      for (int i = 0; i < n; ++i)
        if (g_socks[i].mode.load() == 1) unblock(&g_socks[i], 0);
      drainPeers(true);
      g_trace.add(vf::Ev("End"));
    }
    g_logging = false;
    eng->stop();
    eng.reset();
    return g_trace.text();
  }
};

int main(int argc, char **argv)
{
  if (argc < 5 || std::string(argv[1]) != "run")
  {
    fprintf(stderr, "usage: drv_udp run <cases.txt> <out.ndjson> <parallel>\n");
    return 2;
  }
  auto lines = vf::readLines(argv[2]);
  std::string out = argv[3];
  auto r = vf::runMany((int)lines.size(), atoi(argv[4]), 90.0, out + ".d", out,
                       [&](int i)
                       {
                         Exec x;
                         return x.run(lines[i]);
                       });
  printf("executions=%d crashed=%d timedOut=%d\n", r.executions, r.crashed, r.timedOut);
  return 0;
}
