// C06 conformance driver: replays behaviours of spec/transport/UdpPeers.tla on the real iora::network::UdpEngine
// over loopback, with raw UDP sockets as peers, and records the observable events for spec/transport/UdpTrace.tla.
//
//   drv_udp run <cases.txt> <out.ndjson> <parallel>
//
// case line:   cap=<n> et=<0|1> batch=<0|1> wq=<n> v6=<0|1> ; STEP ; STEP ; ...
//   v6=0: listeners bind 127.0.0.1, peers p1 = 127.0.0.1:X, p2 = 127.0.0.2:X (same port)
//   v6=1: listeners bind "::" (dual stack: the engine clears IPV6_V6ONLY); p1 / p2 are the same IPv4 sockets and reach the
//         engine as ::ffff:127.0.0.1 / ::ffff:127.0.0.2 (numeric text of 16 characters), p3 = [::1]:Y; connect /
//         connectViaListener are given the IPv6 text of the peer.  Without IPv6 in the sandbox the execution is the single
//         event {"e":"NoIPv6"}.
//   DG <peer> <lid> <z>        raw peer sends one datagram of size class z (s=1, m=1472, l=65507) to listener lid
//   CDG <peer> <msid> <z>      raw peer sends one datagram to the socket of client session msid
//   CONNECT <peer>             engine.connect(peer address)
//   VIA <lid> <peer>           engine.connectViaListener(lid, peer address)
//   SEND <msid> <z>            engine.send(session, payload)        SENDERR: the next send()/sendto() on its socket fails
//   CLOSE <msid>               engine.close(session)
//   BLOCKL <lid> / UNBLOCKL <lid> / BLOCKC <msid> / UNBLOCKC <msid>   the kernel answers EAGAIN on that socket / stops doing so
//   ADV                        the idle timeout passes (virtual CLOCK_MONOTONIC + 601 s)
//   GC                         the GC timer fires now
//   PARK                       the I/O thread is parked inside a callback (the close callback of a connectViaListener to a
//                              listener id that does not exist - no session, no socket traffic)
//   RAW <peer> <lid> <z> <n>   (while parked) the peer sends n datagrams to listener lid without waiting: they queue up in the socket
//   RAWC <peer> <msid> <z> <n> (while parked) ... to the socket of client session msid
//   RELEASE                    the callback returns; afterwards NO further traffic: wait (generously, bounded) until the engine
//                              has read every queued datagram or makes no progress any more
// msid names a session by how it came into being: a<n> = the n-th implicit accept, c<n> = the n-th connect /
// connectViaListener call of this execution (a plain number n = the n-th session created, in real order).  Real
// session ids are what is logged.
//
// The run is sequential: every step waits for quiescence (a synchronous in-band barrier command through the engine's
// command queue, the bytesIn / gcRuns counters, and receipt of every datagram the kernel accepted) before the next.
// Interposition (definitions in this executable win over libc): send/sendto (EAGAIN / error injection per socket,
// observation of every datagram handed to the kernel), clock_gettime (virtual CLOCK_MONOTONIC offset for the idle
// timeout), timerfd_create (to fire the GC timer on demand).
#include "iora/network/detail/udp_engine.hpp"
#include "vf/exec.hpp"
#include "vf/trace.hpp"

#include <dlfcn.h>
#include <poll.h>

using namespace iora::network;

// ------------------------------------------------------------------------------------------------ shared state
static vf::Trace g_trace;
// Held by the driver from an engine call (connect, connectViaListener, send) until the line recording its result is
// logged; I/O-thread observers (connect/close callbacks, the send wrappers) take it before logging, so that "the call
// returned" always precedes its consequences in the log.
static std::atomic_flag g_callLk = ATOMIC_FLAG_INIT;
static void lockCall()
{
  while (g_callLk.test_and_set(std::memory_order_acquire))
  {
  }
}
static void unlockCall() { g_callLk.clear(std::memory_order_release); }
static std::atomic<bool> g_logging{false};
static std::atomic<long> g_monoOff{0};
static std::atomic<int> g_timerFd{-1};

// an address in one normal form: 16 bytes (IPv4 as ::ffff:a.b.c.d) + port (network order)
struct NAddr
{
  std::uint8_t a[16]{};
  std::uint16_t port = 0;
  bool operator==(const NAddr &o) const { return port == o.port && memcmp(a, o.a, 16) == 0; }
  bool isAny() const
  {
    static const std::uint8_t z[16]{};
    static const std::uint8_t m[16]{0, 0, 0, 0, 0, 0, 0, 0, 0, 0, 0xff, 0xff, 0, 0, 0, 0};
    return memcmp(a, z, 16) == 0 || memcmp(a, m, 16) == 0;
  }
  bool isV4() const
  {
    static const std::uint8_t m[12]{0, 0, 0, 0, 0, 0, 0, 0, 0, 0, 0xff, 0xff};
    return memcmp(a, m, 12) == 0;
  }
};
static bool toN(const sockaddr *sa, NAddr &n)
{
  if (sa->sa_family == AF_INET)
  {
    auto *s4 = (const sockaddr_in *)sa;
    memset(n.a, 0, 10);
    n.a[10] = n.a[11] = 0xff;
    memcpy(n.a + 12, &s4->sin_addr, 4);
    n.port = s4->sin_port;
    return true;
  }
  if (sa->sa_family == AF_INET6)
  {
    auto *s6 = (const sockaddr_in6 *)sa;
    memcpy(n.a, &s6->sin6_addr, 16);
    n.port = s6->sin6_port;
    return true;
  }
  return false;
}
static bool textToN(const std::string &host, std::uint16_t portHost, NAddr &n)
{
  sockaddr_in s4{};
  s4.sin_family = AF_INET;
  s4.sin_port = htons(portHost);
  if (inet_pton(AF_INET, host.c_str(), &s4.sin_addr) == 1) return toN((sockaddr *)&s4, n);
  sockaddr_in6 s6{};
  s6.sin6_family = AF_INET6;
  s6.sin6_port = htons(portHost);
  if (inet_pton(AF_INET6, host.c_str(), &s6.sin6_addr) == 1) return toN((sockaddr *)&s6, n);
  return false;
}

// payload ids are 16 bit.  Datagrams of >= 3 bytes carry the id in bytes 0-1 and a pattern f(id, offset) behind it; a
// shorter datagram carries id mod 256 only and is resolved against the ids of that length still outstanding at the
// observation point (oldest first - a socket queue is FIFO), so a duplicate or foreign datagram is still named and the
// oracle rejects it.
static const int MAXID = 8192;
static std::atomic<int> g_len[MAXID];
static std::atomic<unsigned char> g_seen[MAXID]; // bit 0: data callback, bit 1: handed to the kernel, bit 2: read by a peer
static std::atomic<int> g_maxId{0};
enum Obs
{
  OBS_DATA = 1,
  OBS_OUT = 2,
  OBS_RECV = 4
};
static inline std::uint8_t pat(int id, size_t i) { return (std::uint8_t)(id * 131 + i * 7 + (i >> 8) * 13 + 1); }
static void genPayload(int id, size_t n, std::vector<std::uint8_t> &b)
{
  b.resize(n);
  for (size_t i = 0; i < n; ++i) b[i] = pat(id, i);
  if (n) b[0] = (std::uint8_t)(id & 0xff);
  if (n >= 3) b[1] = (std::uint8_t)(id >> 8);
}
static bool checkPayload(const std::uint8_t *b, size_t n, int &id, Obs obs)
{
  id = 0;
  if (n == 0) return false;
  if (n >= 3)
  {
    id = b[0] | (b[1] << 8);
    if (id <= 0 || id >= MAXID || g_len[id].load() != (int)n) return false;
    for (size_t i = 2; i < n; ++i)
      if (b[i] != pat(id, i)) return false;
    g_seen[id].fetch_or((unsigned char)obs);
    return true;
  }
  int mx = g_maxId.load(), firstAny = 0;
  for (int k = 1; k <= mx; ++k)
  {
    if ((k & 0xff) != b[0] || g_len[k].load() != (int)n) continue;
    if (!firstAny) firstAny = k;
    if (!(g_seen[k].load() & obs))
    {
      id = k;
      break;
    }
  }
  if (!id) id = firstAny ? firstAny : b[0];
  if (id <= 0 || id >= MAXID || g_len[id].load() != (int)n) return false;
  for (size_t i = 1; i < n; ++i)
    if (b[i] != pat(id, i)) return false;
  g_seen[id].fetch_or((unsigned char)obs);
  return true;
}

struct SockCtl
{
  NAddr key;                 // local address of the engine socket
  std::atomic<int> mode{0};  // 0 pass, 1 EAGAIN
  std::atomic<int> errOnce{0};
  std::atomic<long> eagains{0};
  std::atomic<long> realCalls{0};
  char name[16]{};
};
static SockCtl g_socks[64];
static std::atomic<int> g_nsocks{0};

struct PeerInfo
{
  std::string name;
  int fd = -1;
  int family = AF_INET;
  NAddr addr;
  std::string engineHost; // the text the engine is given for this peer
  std::atomic<long> expect{0};
  long got = 0;
};
static PeerInfo g_peers[3];
static int g_npeers = 2;

static SockCtl *lookupFd(int fd)
{
  int n = g_nsocks.load(std::memory_order_acquire);
  if (n == 0) return nullptr;
  sockaddr_storage ss{};
  socklen_t sl = sizeof ss;
  NAddr k;
  if (::getsockname(fd, (sockaddr *)&ss, &sl) != 0 || !toN((sockaddr *)&ss, k)) return nullptr;
  for (int i = 0; i < n; ++i)
    if (g_socks[i].key.port == k.port && (g_socks[i].key == k || (g_socks[i].key.isAny() && k.isAny()))) return &g_socks[i];
  return nullptr;
}
static SockCtl *registerSock(const NAddr &a, const std::string &name)
{
  int i = g_nsocks.load();
  g_socks[i].key = a;
  snprintf(g_socks[i].name, sizeof g_socks[i].name, "%s", name.c_str());
  g_nsocks.store(i + 1, std::memory_order_release);
  return &g_socks[i];
}
static SockCtl *sockByName(const std::string &name)
{
  int n = g_nsocks.load();
  for (int i = 0; i < n; ++i)
    if (name == g_socks[i].name) return &g_socks[i];
  return nullptr;
}
static int peerOfN(const NAddr &a)
{
  for (int i = 0; i < g_npeers; ++i)
    if (g_peers[i].addr == a) return i;
  return -1;
}

// ------------------------------------------------------------------------------------------------ interposition
typedef ssize_t (*sendto_t)(int, const void *, size_t, int, const sockaddr *, socklen_t);
typedef ssize_t (*send_t)(int, const void *, size_t, int);
typedef int (*cgt_t)(clockid_t, struct timespec *);
typedef int (*tfc_t)(int, int);
static sendto_t realSendto()
{
  static sendto_t f = (sendto_t)dlsym(RTLD_NEXT, "sendto");
  return f;
}
static send_t realSend()
{
  static send_t f = (send_t)dlsym(RTLD_NEXT, "send");
  return f;
}

static ssize_t engineSend(SockCtl *sc, int fd, const void *buf, size_t n, int flags, const sockaddr *to, socklen_t tl)
{
  if (sc->errOnce.exchange(0))
  {
    errno = ENETUNREACH;
    return -1;
  }
  if (sc->mode.load() == 1)
  {
    sc->eagains++;
    usleep(150); // the kernel still reports the socket writable, so the engine polls: damp the spin
    errno = EAGAIN;
    return -1;
  }
  NAddr dst;
  bool haveDst = false;
  if (to)
    haveDst = toN(to, dst);
  else
  {
    sockaddr_storage ps{};
    socklen_t sl = sizeof ps;
    haveDst = ::getpeername(fd, (sockaddr *)&ps, &sl) == 0 && toN((sockaddr *)&ps, dst);
  }
  ssize_t r = to ? realSendto()(fd, buf, n, flags, to, tl) : realSend()(fd, buf, n, flags);
  sc->realCalls++;
  if (r >= 0)
  {
    int id = 0;
    bool ok = checkPayload((const std::uint8_t *)buf, n, id, OBS_OUT) && (size_t)r == n;
    int p = haveDst ? peerOfN(dst) : -1;
    lockCall();
    unlockCall();
    if (g_logging.load())
      g_trace.add(vf::Ev("Out").str("sock", sc->name).str("to", p >= 0 ? g_peers[p].name : "?").i("id", id).i("len", (long)n).b("ok", ok));
    if (p >= 0) g_peers[p].expect++;
  }
  return r;
}

extern "C" ssize_t sendto(int fd, const void *buf, size_t n, int flags, const sockaddr *to, socklen_t tl)
{
  SockCtl *sc = lookupFd(fd);
  if (!sc) return realSendto()(fd, buf, n, flags, to, tl);
  return engineSend(sc, fd, buf, n, flags, to, tl);
}
extern "C" ssize_t send(int fd, const void *buf, size_t n, int flags)
{
  SockCtl *sc = lookupFd(fd);
  if (!sc) return realSend()(fd, buf, n, flags);
  return engineSend(sc, fd, buf, n, flags, nullptr, 0);
}
extern "C" int clock_gettime(clockid_t c, struct timespec *ts)
{
  static cgt_t f = (cgt_t)dlsym(RTLD_NEXT, "clock_gettime");
  int r = f(c, ts);
  if (r == 0 && c == CLOCK_MONOTONIC) ts->tv_sec += g_monoOff.load();
  return r;
}
extern "C" int timerfd_create(int clockid, int flags)
{
  static tfc_t f = (tfc_t)dlsym(RTLD_NEXT, "timerfd_create");
  int fd = f(clockid, flags);
  g_timerFd = fd;
  return fd;
}

// ------------------------------------------------------------------------------------------------ one execution
static size_t sizeOf(const std::string &z) { return z == "s" ? 1 : z == "m" ? 1472 : 65507; }

// datagrams the kernel dropped on the socket bound to this port (receive queue overflow): /proc/net/udp{,6} column "drops"
static long kernelDrops(std::uint16_t portHost)
{
  long drops = 0;
  for (const char *path : {"/proc/net/udp", "/proc/net/udp6"})
  {
    FILE *f = fopen(path, "r");
    if (!f) continue;
    char line[512];
    while (fgets(line, sizeof line, f))
    {
      // "sl local_address rem_address st tx:rx tr:when retrnsmt uid timeout inode ref pointer drops": the last token
      std::vector<std::string> tok = vf::words(line);
      if (tok.size() < 5 || tok[0] == "sl") continue;
      size_t c = tok[1].rfind(':');
      if (c == std::string::npos || strtol(tok[1].c_str() + c + 1, nullptr, 16) != portHost) continue;
      drops += atol(tok.back().c_str());
    }
    fclose(f);
  }
  return drops;
}

struct Exec
{
  std::unique_ptr<UdpEngine> eng;
  std::vector<SessionId> msid;             // real session ids in creation order
  std::vector<SessionId> accSids, callSids; // ... of the implicit accepts / of the connect calls
  std::map<SessionId, std::string> sockOf; // real sid -> socket name ("L1" / "C<sid>")
  std::map<SessionId, NAddr> cliAddr;
  std::map<SessionId, bool> closed;
  std::atomic_flag lk = ATOMIC_FLAG_INIT;
  std::atomic<int> nConnect{0}, nClose{0};
  int curLid = 0; // listener the datagram in flight was sent to (for sockOf of an accepted session)
  std::map<int, ListenerId> lids;
  std::map<int, NAddr> laddr;
  int nextId = 1;
  bool infra = false;
  bool v6 = false;
  int spell = 0; // how connect / connectViaListener are given the peers' hosts: 0 canonical text, 1 short numeric forms, 2 a name
  // parking the I/O thread inside a callback
  std::atomic<SessionId> parkSid{0};
  std::atomic<bool> parked{false}, gateOpen{true};
  std::uint64_t parkBytesIn = 0;
  long rawBytes = 0;
  std::vector<std::uint16_t> rawPorts;

  void lock()
  {
    while (lk.test_and_set(std::memory_order_acquire))
    {
    }
  }
  void unlock() { lk.clear(std::memory_order_release); }

  static std::string peerName(const TransportAddress &a)
  {
    NAddr n;
    if (!textToN(a.host, a.port, n)) return "?";
    int p = peerOfN(n);
    return p >= 0 ? g_peers[p].name : "?";
  }

  void barrier() { (void)eng->addListener("!", 0, TlsMode::None); }

  void infraEv(const char *why)
  {
    infra = true;
    g_trace.add(vf::Ev("Infra").str("why", why));
  }

  bool waitUntil(const std::function<bool()> &f, double sec)
  {
    double t0 = vf::nowSec();
    while (!f())
    {
      if (vf::nowSec() - t0 > sec) return false;
      usleep(200);
    }
    return true;
  }

  // send one datagram from peer i's socket to an engine socket
  bool peerSendTo(int i, const NAddr &dst, const std::uint8_t *p, size_t n)
  {
    ssize_t r;
    if (g_peers[i].family == AF_INET)
    {
      sockaddr_in s4{};
      s4.sin_family = AF_INET;
      s4.sin_port = dst.port;
      if (dst.isAny())
        s4.sin_addr.s_addr = inet_addr("127.0.0.1");
      else if (dst.isV4())
        memcpy(&s4.sin_addr, dst.a + 12, 4);
      else
        return false;
      r = realSendto()(g_peers[i].fd, p, n, 0, (sockaddr *)&s4, sizeof s4);
    }
    else
    {
      sockaddr_in6 s6{};
      s6.sin6_family = AF_INET6;
      s6.sin6_port = dst.port;
      if (dst.isAny())
        inet_pton(AF_INET6, "::1", &s6.sin6_addr);
      else
        memcpy(&s6.sin6_addr, dst.a, 16);
      r = realSendto()(g_peers[i].fd, p, n, 0, (sockaddr *)&s6, sizeof s6);
    }
    return r == (ssize_t)n;
  }

  void drainPeers(bool wait)
  {
    double t0 = vf::nowSec();
    std::vector<std::uint8_t> buf(70000);
    for (;;)
    {
      bool missing = false;
      for (int i = 0; i < g_npeers; ++i)
      {
        for (;;)
        {
          ssize_t n = ::recvfrom(g_peers[i].fd, buf.data(), buf.size(), MSG_DONTWAIT, nullptr, nullptr);
          if (n < 0) break;
          int id = 0;
          bool ok = checkPayload(buf.data(), (size_t)n, id, OBS_RECV);
          g_peers[i].got++;
          g_trace.add(vf::Ev("PeerRecv").str("p", g_peers[i].name).i("id", id).i("len", (long)n).b("ok", ok));
        }
        if (g_peers[i].got < g_peers[i].expect.load()) missing = true;
      }
      if (!missing || !wait) return;
      if (vf::nowSec() - t0 > 5.0)
      {
        // Loopback delivers a datagram inside the send call; the peers' receive buffers are far from full here (bursts are
        // accounted for separately).  A send the kernel reported as successful that produces nothing at the peer means the
        // engine's call did not transmit a datagram of its own (e.g. corked with MSG_MORE): not the harness's fault - the
        // check re-runs the case and reports it when it repeats.
        infra = true;
        g_trace.add(vf::Ev("Lost").str("why", "a send call the kernel reported as successful produced no datagram at the peer socket within 5 s"));
        return;
      }
      usleep(200);
    }
  }

  SessionId realSid(const std::string &tok)
  {
    const std::vector<SessionId> *v = &msid;
    const char *num = tok.c_str();
    if (tok[0] == 'a' || tok[0] == 'c')
    {
      v = tok[0] == 'a' ? &accSids : &callSids;
      ++num;
    }
    int k = atoi(num);
    lock();
    SessionId r = (k >= 1 && k <= (int)v->size()) ? (*v)[k - 1] : 0;
    unlock();
    return r;
  }
  bool isClosed(SessionId s)
  {
    lock();
    bool c = closed.count(s) != 0;
    unlock();
    return c;
  }

  // the kernel accepts writes again; while the engine holds queued datagrams it keeps polling the socket, so its next
  // real write follows promptly: wait for it (bounded; nothing in the oracle depends on this wait), then for the handler
  void unblock(SockCtl *sc, SessionId sid)
  {
    long calls = sc->realCalls.load();
    long eag = sc->eagains.exchange(0);
    sc->mode = 0;
    if (eag > 0 && !(sid && isClosed(sid))) waitUntil([&] { return sc->realCalls.load() != calls; }, 0.3);
    barrier();
  }

  int newId(size_t n)
  {
    int id = nextId++;
    if (id >= MAXID) return -1;
    g_len[id] = (int)n;
    g_maxId = id;
    return id;
  }

  bool setupPeers()
  {
    g_npeers = v6 ? 3 : 2;
    const char *v4host[2] = {"127.0.0.1", "127.0.0.2"};
    for (int i = 0; i < 2; ++i)
    {
      g_peers[i].name = "p" + std::to_string(i + 1);
      g_peers[i].family = AF_INET;
      g_peers[i].fd = ::socket(AF_INET, SOCK_DGRAM, 0);
      sockaddr_in a{};
      a.sin_family = AF_INET;
      a.sin_addr.s_addr = inet_addr(v4host[i]);
      a.sin_port = i == 0 ? 0 : g_peers[0].addr.port; // same port, different address when possible
      if (::bind(g_peers[i].fd, (sockaddr *)&a, sizeof a) != 0)
      {
        a.sin_port = 0;
        if (::bind(g_peers[i].fd, (sockaddr *)&a, sizeof a) != 0) return false;
      }
      socklen_t sl = sizeof a;
      ::getsockname(g_peers[i].fd, (sockaddr *)&a, &sl);
      toN((sockaddr *)&a, g_peers[i].addr);
      g_peers[i].engineHost = v6 ? std::string("::ffff:") + v4host[i] : std::string(v4host[i]);
      // other spellings of the same addresses (the session must still be found under the address datagrams arrive from)
      static const char *shortForm[2] = {"127.1", "127.2"};
      if (!v6 && spell == 1) g_peers[i].engineHost = shortForm[i];
      if (!v6 && spell == 2) g_peers[i].engineHost = i == 0 ? "localhost" : shortForm[i];
    }
    if (v6)
    {
      g_peers[2].name = "p3";
      g_peers[2].family = AF_INET6;
      g_peers[2].fd = ::socket(AF_INET6, SOCK_DGRAM, 0);
      sockaddr_in6 a{};
      a.sin6_family = AF_INET6;
      inet_pton(AF_INET6, "::1", &a.sin6_addr);
      if (g_peers[2].fd < 0 || ::bind(g_peers[2].fd, (sockaddr *)&a, sizeof a) != 0) return false;
      socklen_t sl = sizeof a;
      ::getsockname(g_peers[2].fd, (sockaddr *)&a, &sl);
      toN((sockaddr *)&a, g_peers[2].addr);
      g_peers[2].engineHost = "::1";
    }
    for (int i = 0; i < g_npeers; ++i)
    {
      int rb = 4 << 20;
      ::setsockopt(g_peers[i].fd, SOL_SOCKET, SO_RCVBUF, &rb, sizeof rb);
    }
    return true;
  }

  void release()
  {
    if (!parked.load() && gateOpen.load()) return;
    gateOpen = true;
    waitUntil([&] { return !parked.load(); }, 5.0);
    // no further traffic from here on: the engine must read everything that is queued on its own
    std::uint64_t want = parkBytesIn + (std::uint64_t)rawBytes;
    std::uint64_t seen = eng->getStats().bytesIn;
    double last = vf::nowSec();
    while (seen < want)
    {
      usleep(300);
      std::uint64_t cur = eng->getStats().bytesIn;
      if (cur != seen)
      {
        seen = cur;
        last = vf::nowSec();
      }
      else if (vf::nowSec() - last > 3.0)
        break; // the engine stopped reading although datagrams are queued: left to the oracle (Settled with datagrams in flight)
    }
    if (seen < want)
    {
      long drops = 0;
      for (auto p : rawPorts) drops += kernelDrops(p);
      if (drops > 0)
      {
        infraEv("the kernel dropped datagrams of the burst (socket receive buffer overflow)");
        return;
      }
    }
    rawBytes = 0;
    rawPorts.clear();
    barrier();
  }

  std::string run(const std::string &line)
  {
    auto parts = vf::split(line, ';');
    TransportConfig cfg;
    cfg.protocol = Protocol::UDP;
    cfg.gcInterval = std::chrono::seconds(86400); // the GC timer fires only when the behaviour says so
    cfg.soRcvBuf = 4 << 20;                       // room for a burst of several hundred datagrams in one socket queue
    long cap = 0;
    for (auto &w : vf::words(parts[0]))
    {
      auto kv = vf::split(w, '=');
      if (kv.size() != 2) continue;
      long v = atol(kv[1].c_str());
      if (kv[0] == "cap") cfg.maxSessions = (std::size_t)(cap = v);
      if (kv[0] == "et") cfg.useEdgeTriggered = v != 0;
      if (kv[0] == "batch") cfg.batching.enabled = v != 0;
      if (kv[0] == "wq") cfg.maxWriteQueue = (std::size_t)v;
      if (kv[0] == "v6") v6 = v != 0;
      if (kv[0] == "sp") spell = (int)v;
    }
    if (!setupPeers()) return v6 ? "{\"e\":\"NoIPv6\"}\n" : "{\"e\":\"Infra\",\"why\":\"peer bind\"}\n";
    eng = std::make_unique<UdpEngine>(cfg);
    detail::EngineBase::Callbacks cbs{};
    cbs.onAccept = [this](SessionId sid, const TransportAddress &a)
    {
      lock();
      msid.push_back(sid);
      accSids.push_back(sid);
      sockOf[sid] = "L" + std::to_string(curLid);
      unlock();
      if (g_logging.load()) g_trace.add(vf::Ev("Accept").i("sid", (long)sid).str("p", peerName(a)));
    };
    cbs.onConnect = [this](SessionId sid, const TransportAddress &a)
    {
      lockCall();
      if (g_logging.load()) g_trace.add(vf::Ev("Connect").i("sid", (long)sid).str("p", peerName(a)));
      unlockCall();
      nConnect++;
    };
    cbs.onData = [](SessionId sid, iora::core::BufferView d, std::chrono::steady_clock::time_point)
    {
      int id = 0;
      bool ok = checkPayload((const std::uint8_t *)d.data(), d.size(), id, OBS_DATA);
      if (g_logging.load()) g_trace.add(vf::Ev("Data").i("sid", (long)sid).i("id", id).i("len", (long)d.size()).b("ok", ok));
    };
    cbs.onClose = [this](SessionId sid, const TransportErrorInfo &)
    {
      lockCall(); // (the driver holds this while a connect call is in flight: its result - e.g. parkSid - is set when we get it)
      unlockCall();
      if (sid == parkSid.load() && sid != 0)
      {
        // the I/O thread stays here until the driver opens the gate
        parked = true;
        while (!gateOpen.load()) usleep(100);
        parked = false;
        return;
      }
      lock();
      closed[sid] = true;
      unlock();
      lockCall();
      if (g_logging.load()) g_trace.add(vf::Ev("Close").i("sid", (long)sid));
      unlockCall();
      nClose++;
    };
    cbs.onError = [](TransportError, const std::string &) {};
    eng->setCallbacks(std::move(cbs));
    if (!eng->start().isOk()) return "{\"e\":\"Infra\",\"why\":\"engine start\"}\n";
    for (int l = 1; l <= 2; ++l)
    {
      auto lr = eng->addListener(v6 ? "::" : "127.0.0.1", 0, TlsMode::None);
      if (!lr.isOk()) return v6 ? "{\"e\":\"NoIPv6\"}\n" : "{\"e\":\"Infra\",\"why\":\"addListener\"}\n";
      lids[l] = lr.value();
      auto la = eng->getListenerAddress(lr.value());
      NAddr a;
      if (!textToN(la.host, la.port, a)) return "{\"e\":\"Infra\",\"why\":\"listener address\"}\n";
      laddr[l] = a;
      registerSock(a, "L" + std::to_string(l));
    }
    g_logging = true;
    g_trace.add(vf::Ev("Begin").i("cap", cap).i("et", cfg.useEdgeTriggered).i("batch", cfg.batching.enabled).i("wq", (long)cfg.maxWriteQueue).i("v6", v6));

    for (size_t si = 1; si < parts.size() && !infra; ++si)
    {
      auto w = vf::words(parts[si]);
      if (w.empty()) continue;
      const std::string &op = w[0];
      bool isRaw = op == "RAW" || op == "RAWC";
      if (!gateOpen.load() && !isRaw)
      {
        release(); // any other step needs a running I/O thread
        if (infra) break;
        drainPeers(true);
        g_trace.add(vf::Ev("Settled"));
        if (op == "RELEASE") continue;
      }
      if (op == "RELEASE") continue;
      if (op == "DG" || op == "CDG" || isRaw)
      {
        int p = atoi(w[1].c_str() + 1) - 1;
        if (p < 0 || p >= g_npeers)
        {
          g_trace.add(vf::Ev("Skip").str("step", parts[si]));
          continue;
        }
        size_t n = sizeOf(w[3]);
        NAddr dst;
        int lid = 0;
        SessionId csid = 0;
        if (op == "DG" || op == "RAW")
        {
          lid = atoi(w[2].c_str());
          dst = laddr[lid];
          curLid = lid;
        }
        else
        {
          csid = realSid(w[2]);
          if (!csid || isClosed(csid) || !cliAddr.count(csid))
          {
            g_trace.add(vf::Ev("Skip").str("step", parts[si]));
            continue;
          }
          dst = cliAddr[csid];
        }
        int count = isRaw ? atoi(w[4].c_str()) : 1;
        if (isRaw && gateOpen.load())
        {
          g_trace.add(vf::Ev("Skip").str("step", parts[si]));
          continue;
        }
        auto before = eng->getStats().bytesIn;
        std::vector<std::uint8_t> b;
        for (int k = 0; k < count && !infra; ++k)
        {
          int id = newId(n);
          if (id < 0)
          {
            infraEv("out of payload ids");
            break;
          }
          genPayload(id, n, b);
          g_trace.add(vf::Ev("PeerSend").str("p", g_peers[p].name).i("lid", lid).i("csid", (long)csid).i("id", id).i("len", (long)n));
          if (!peerSendTo(p, dst, b.data(), n)) infraEv("raw peer sendto failed");
          rawBytes += isRaw ? (long)n : 0;
        }
        if (infra) break;
        if (isRaw)
        {
          rawPorts.push_back(ntohs(dst.port));
          continue; // no waiting: the datagrams queue up behind the parked I/O thread
        }
        if (!waitUntil([&] { return eng->getStats().bytesIn != before; }, 5.0))
        {
          infraEv("the engine did not read the datagram within 5 s");
          break;
        }
        barrier();
      }
      else if (op == "PARK")
      {
        gateOpen = false;
        parkBytesIn = eng->getStats().bytesIn;
        rawBytes = 0;
        lockCall();
        auto cr = eng->connectViaListener((ListenerId)999999, g_peers[0].engineHost, ntohs(g_peers[0].addr.port));
        if (cr.isOk()) parkSid = cr.value();
        unlockCall();
        if (!cr.isOk() || !waitUntil([&] { return parked.load(); }, 5.0))
        {
          gateOpen = true;
          infraEv("could not park the I/O thread");
          break;
        }
        continue; // (no Settled: nothing can settle while the I/O thread is parked)
      }
      else if (op == "CONNECT" || op == "VIA")
      {
        int p = atoi((op == "CONNECT" ? w[1] : w[2]).c_str() + 1) - 1;
        if (p < 0 || p >= g_npeers)
        {
          g_trace.add(vf::Ev("Skip").str("step", parts[si]));
          continue;
        }
        lockCall();
        ConnectResult cr = op == "CONNECT" ? eng->connect(g_peers[p].engineHost, ntohs(g_peers[p].addr.port), TlsMode::None)
                                           : eng->connectViaListener(lids[atoi(w[1].c_str())], g_peers[p].engineHost, ntohs(g_peers[p].addr.port));
        if (!cr.isOk())
        {
          unlockCall();
          infraEv("connect call refused");
          break;
        }
        SessionId sid = cr.value();
        lock();
        msid.push_back(sid);
        callSids.push_back(sid);
        sockOf[sid] = op == "CONNECT" ? "C" + std::to_string(sid) : "L" + w[1];
        unlock();
        g_trace.add(vf::Ev("ConnCall").i("sid", (long)sid).str("p", g_peers[p].name).i("lid", op == "VIA" ? atoi(w[1].c_str()) : 0));
        unlockCall();
        barrier();
        if (op == "CONNECT" && !isClosed(sid))
        {
          auto la = eng->getLocalAddress(sid);
          NAddr a;
          if (textToN(la.host, la.port, a))
          {
            cliAddr[sid] = a;
            registerSock(a, "C" + std::to_string(sid));
          }
        }
      }
      else if (op == "SEND" || op == "SENDERR")
      {
        SessionId sid = realSid(w[1]);
        if (!sid)
        {
          g_trace.add(vf::Ev("Skip").str("step", parts[si]));
          continue;
        }
        size_t n = sizeOf(w[2]);
        int id = newId(n);
        if (id < 0)
        {
          infraEv("out of payload ids");
          break;
        }
        std::vector<std::uint8_t> b;
        genPayload(id, n, b);
        SockCtl *sc = nullptr;
        if (op == "SENDERR")
        {
          lock();
          std::string sn = sockOf[sid];
          unlock();
          sc = sockByName(sn);
          if (sc) sc->errOnce = 1;
        }
        lockCall();
        bool acc = eng->send(sid, b.data(), n);
        g_trace.add(vf::Ev("Send").i("sid", (long)sid).i("id", id).i("len", (long)n).b("acc", acc));
        unlockCall();
        barrier();
        if (sc) sc->errOnce = 0;
      }
      else if (op == "CLOSE")
      {
        SessionId sid = realSid(w[1]);
        if (!sid)
        {
          g_trace.add(vf::Ev("Skip").str("step", parts[si]));
          continue;
        }
        eng->close(sid);
        barrier();
      }
      else if (op == "BLOCKL" || op == "BLOCKC" || op == "UNBLOCKL" || op == "UNBLOCKC")
      {
        std::string sn;
        SessionId sid = 0;
        if (op.back() == 'L')
          sn = "L" + w[1];
        else
        {
          sid = realSid(w[1]);
          sn = "C" + std::to_string(sid);
        }
        SockCtl *sc = sockByName(sn);
        if (!sc)
        {
          g_trace.add(vf::Ev("Skip").str("step", parts[si]));
          continue;
        }
        if (op[0] == 'B')
          sc->mode = 1;
        else
          unblock(sc, sid);
      }
      else if (op == "ADV")
      {
        g_monoOff += 601;
      }
      else if (op == "GC")
      {
        auto before = eng->getStats().gcRuns;
        itimerspec its{};
        its.it_value.tv_nsec = 1;
        ::timerfd_settime(g_timerFd.load(), 0, &its, nullptr);
        if (!waitUntil([&] { return eng->getStats().gcRuns != before; }, 5.0))
        {
          infraEv("the GC timer did not run within 5 s");
          break;
        }
        barrier();
      }
      else
      {
        infraEv("unknown step");
        break;
      }
      drainPeers(true);
      g_trace.add(vf::Ev("Settled"));
    }
    if (!infra && !gateOpen.load())
    {
      release();
      if (!infra)
      {
        drainPeers(true);
        g_trace.add(vf::Ev("Settled"));
      }
    }
    gateOpen = true;
    if (!infra)
    {
      // let every queued datagram go out, then stop observing
      int n = g_nsocks.load();
      for (int i = 0; i < n; ++i)
        if (g_socks[i].mode.load() == 1) unblock(&g_socks[i], 0);
      drainPeers(true);
      g_trace.add(vf::Ev("End"));
    }
    g_logging = false;
    eng->stop();
    eng.reset();
    return g_trace.text();
  }
};

int main(int argc, char **argv)
{
  if (argc < 5 || std::string(argv[1]) != "run")
  {
    fprintf(stderr, "usage: drv_udp run <cases.txt> <out.ndjson> <parallel>\n");
    return 2;
  }
  auto lines = vf::readLines(argv[2]);
  std::string out = argv[3];
  auto r = vf::runMany((int)lines.size(), atoi(argv[4]), 90.0, out + ".d", out,
                       [&](int i)
                       {
                         Exec x;
                         return x.run(lines[i]);
                       });
  printf("executions=%d crashed=%d timedOut=%d\n", r.executions, r.crashed, r.timedOut);
  return 0;
}
