// C07 conformance driver: realises ONE configuration tuple of spec/transport/TlsPolicy.tla per forked child on the real
// iora engine (Transport / HttpClient / TLS listener / HttpServer) against a scripted peer written with the OpenSSL API (or a
// plaintext / garbage peer), with a byte-scanning relay in the middle that sees the wire.
//
//   drv_tls run <cases.txt> <out.ndjson> <parallel> <certdir>
//
// case line:  <id> key=value ...   keys = the fields of the TlsPolicy tuple (booleans as 0/1) + variant=<n>
// output:     one {"e":"Tuple", <configuration fields>, <observables>} event per case, separated by {"e":"Reset"}
//
// observables (only facts, no judgement - TlsPolicyTrace.tla judges):
//   started    the engine started and (role Server) the listener was added
//   announced  role Client: onConnect fired / connectSync returned ok / HttpClient returned a response
//              role Server: onConnect fired for the accepted session (i.e. after the TLS handshake; NOT onAccept);
//              via HttpServer: the request handler ran
//   accepted   role Server: onAccept fired (TCP accept; informational)
//   appOut     the peer read the engine application's marker (decrypted by OpenSSL, or raw for a non-TLS peer)
//   appIn      the engine's application received bytes through onData / an HTTP response body
//   clearOut   the relay saw the engine application's marker on the wire in clear text
//   peerHs     the OpenSSL peer completed a handshake;  peerVer its protocol version (10..13, 0 = none)
//   closed     the engine reported onClose for the session;  timeout: the tuple ran into the driver's deadline
#include "iora/network/http_client.hpp"
#include "iora/network/http_server.hpp"
#include "iora/network/transport.hpp"
#include "iora/network/transport_impl.hpp"

#include "vf/certs.hpp"
#include "vf/exec.hpp"
#include "vf/trace.hpp"

#include <arpa/inet.h>
#include <atomic>
#include <fcntl.h>
#include <map>
#include <mutex>
#include <netinet/in.h>
#include <netinet/tcp.h>
#include <openssl/err.h>
#include <openssl/ssl.h>
#include <poll.h>
#include <signal.h>
#include <sys/socket.h>
#include <thread>

using namespace iora::network;
using std::chrono::milliseconds;

static const std::string kEngineMarker = "IORA-C07-ENGINE-APPDATA-7f3a91c2";
static const std::string kPeerMarker = "IORA-C07-PEER-APPDATA-c4d2e8b6";
static std::string g_certs;
static bool g_debug = false;

#define DBG(...)                                                                                                       \
  do                                                                                                                   \
  {                                                                                                                    \
    if (g_debug)                                                                                                       \
    {                                                                                                                  \
      fprintf(stderr, "[drv_tls %d] ", (int)getpid());                                                                 \
      fprintf(stderr, __VA_ARGS__);                                                                                    \
      fprintf(stderr, "\n");                                                                                           \
    }                                                                                                                  \
  } while (0)

// ------------------------------------------------------------------------------------------------ case
struct Case
{
  long id = 0;
  std::map<std::string, std::string> kv;
  std::string s(const char *k) const
  {
    auto it = kv.find(k);
    return it == kv.end() ? std::string() : it->second;
  }
  bool b(const char *k) const { return s(k) == "1"; }
  int i(const char *k) const { return atoi(s(k).c_str()); }
};

static Case parseCase(const std::string &line)
{
  Case c;
  auto w = vf::words(line);
  if (w.empty()) return c;
  c.id = atol(w[0].c_str());
  for (size_t k = 1; k < w.size(); ++k)
  {
    auto eq = w[k].find('=');
    if (eq != std::string::npos) c.kv[w[k].substr(0, eq)] = w[k].substr(eq + 1);
  }
  return c;
}

struct Obs
{
  std::atomic<bool> started{false}, announced{false}, accepted{false}, appOut{false}, appIn{false}, appInMarker{false},
    clearOut{false}, clearIn{false}, peerHs{false}, closed{false}, peerDone{false}, relayEngineEof{false},
    timeout{false};
  std::atomic<int> peerVer{0};
  std::mutex m;
  std::string closeMsg, peerErr, startErr;
  void setClose(const std::string &s)
  {
    std::lock_guard<std::mutex> g(m);
    if (closeMsg.empty()) closeMsg = s.substr(0, 100);
  }
  void setPeerErr(const std::string &s)
  {
    std::lock_guard<std::mutex> g(m);
    if (peerErr.empty()) peerErr = s.substr(0, 100);
  }
};

static double g_deadline = 0; // absolute (vf::nowSec) end of the tuple
static std::atomic<bool> g_stop{false};
static bool timeUp() { return g_stop.load() || vf::nowSec() > g_deadline; }

// ------------------------------------------------------------------------------------------------ sockets
static int listenLoopback(uint16_t &port, bool dual)
{
  // dual: one socket that accepts both 127.0.0.1 and ::1 (a name such as "localhost" may resolve to either)
  if (dual)
  {
    int fd = socket(AF_INET6, SOCK_STREAM | SOCK_CLOEXEC, 0);
    if (fd >= 0)
    {
      int off = 0, one = 1;
      setsockopt(fd, IPPROTO_IPV6, IPV6_V6ONLY, &off, sizeof off);
      setsockopt(fd, SOL_SOCKET, SO_REUSEADDR, &one, sizeof one);
      sockaddr_in6 a{};
      a.sin6_family = AF_INET6;
      a.sin6_addr = in6addr_any;
      if (bind(fd, (sockaddr *)&a, sizeof a) == 0 && listen(fd, 8) == 0)
      {
        socklen_t sl = sizeof a;
        getsockname(fd, (sockaddr *)&a, &sl);
        port = ntohs(a.sin6_port);
        return fd;
      }
      close(fd);
    }
  }
  int fd = socket(AF_INET, SOCK_STREAM | SOCK_CLOEXEC, 0);
  int one = 1;
  setsockopt(fd, SOL_SOCKET, SO_REUSEADDR, &one, sizeof one);
  sockaddr_in a{};
  a.sin_family = AF_INET;
  a.sin_addr.s_addr = htonl(INADDR_LOOPBACK);
  if (bind(fd, (sockaddr *)&a, sizeof a) != 0 || listen(fd, 8) != 0)
  {
    close(fd);
    return -1;
  }
  socklen_t sl = sizeof a;
  getsockname(fd, (sockaddr *)&a, &sl);
  port = ntohs(a.sin_port);
  return fd;
}

static int connectLoopback(uint16_t port)
{
  int fd = socket(AF_INET, SOCK_STREAM | SOCK_CLOEXEC, 0);
  sockaddr_in a{};
  a.sin_family = AF_INET;
  a.sin_addr.s_addr = htonl(INADDR_LOOPBACK);
  a.sin_port = htons(port);
  if (connect(fd, (sockaddr *)&a, sizeof a) != 0)
  {
    close(fd);
    return -1;
  }
  int one = 1;
  setsockopt(fd, IPPROTO_TCP, TCP_NODELAY, &one, sizeof one);
  return fd;
}

// accept with a stop flag; -1 when the tuple ended first
static int acceptUntilStop(int lfd)
{
  while (!timeUp())
  {
    pollfd p{lfd, POLLIN, 0};
    if (poll(&p, 1, 50) > 0)
    {
      int fd = accept4(lfd, nullptr, nullptr, SOCK_CLOEXEC);
      if (fd >= 0)
      {
        int one = 1;
        setsockopt(fd, IPPROTO_TCP, TCP_NODELAY, &one, sizeof one);
        return fd;
      }
    }
  }
  return -1;
}

static void setIoTimeout(int fd, int ms)
{
  timeval tv{ms / 1000, (ms % 1000) * 1000};
  setsockopt(fd, SOL_SOCKET, SO_RCVTIMEO, &tv, sizeof tv);
  setsockopt(fd, SOL_SOCKET, SO_SNDTIMEO, &tv, sizeof tv);
}

// ------------------------------------------------------------------------------------------------ relay
// Forwards bytes between the side that connected to it and `targetPort`, keeps a copy of both directions and looks for
// the markers.  engineIsAcceptedSide: role Client (the engine connects to the relay); otherwise the engine is the target.
struct Relay
{
  int lfd = -1;
  uint16_t port = 0, targetPort = 0;
  bool engineIsAcceptedSide = true;
  Obs *obs = nullptr;
  std::thread th;
  long bytesFromEngine = 0, bytesFromPeer = 0;

  bool start(uint16_t target, bool engineAccepted, Obs *o)
  {
    targetPort = target;
    engineIsAcceptedSide = engineAccepted;
    obs = o;
    lfd = listenLoopback(port, true);
    if (lfd < 0) return false;
    th = std::thread([this] { run(); });
    return true;
  }
  void run()
  {
    while (!timeUp())
    {
      int a = acceptUntilStop(lfd);
      if (a < 0) break;
      int b = connectLoopback(targetPort);
      if (b < 0)
      {
        close(a);
        continue;
      }
      shuttle(a, b);
    }
  }
  void shuttle(int a, int b)
  {
    std::string fromA, fromB;
    bool aOpen = true, bOpen = true;
    double graceEnd = 0;
    while (!timeUp() && (aOpen || bOpen))
    {
      if (graceEnd > 0 && vf::nowSec() > graceEnd) break;
      pollfd p[2] = {{aOpen ? a : -1, POLLIN, 0}, {bOpen ? b : -1, POLLIN, 0}};
      if (poll(p, 2, 20) <= 0) continue;
      for (int k = 0; k < 2; ++k)
      {
        if (!(p[k].revents & (POLLIN | POLLHUP | POLLERR))) continue;
        char buf[16384];
        int from = k == 0 ? a : b, to = k == 0 ? b : a;
        ssize_t n = recv(from, buf, sizeof buf, 0);
        bool fromEngine = (k == 0) == engineIsAcceptedSide;
        if (n > 0)
        {
          std::string &acc = k == 0 ? fromA : fromB;
          if (acc.size() < (1u << 20)) acc.append(buf, (size_t)n);
          if (fromEngine)
          {
            bytesFromEngine += n;
            if (acc.find(kEngineMarker) != std::string::npos) obs->clearOut = true;
          }
          else
          {
            bytesFromPeer += n;
            if (acc.find(kPeerMarker) != std::string::npos) obs->clearIn = true;
          }
          bool &toOpen = k == 0 ? bOpen : aOpen;
          (void)toOpen;
          ssize_t off = 0;
          while (off < n)
          {
            ssize_t w = send(to, buf + off, (size_t)(n - off), MSG_NOSIGNAL);
            if (w <= 0) break;
            off += w;
          }
        }
        else
        {
          // EOF / reset on this side: pass the FIN on, but keep listening to the other side for a while - an engine
          // that fell back to clear text after a failed handshake would show here
          (k == 0 ? aOpen : bOpen) = false;
          shutdown(to, SHUT_WR);
          if (fromEngine) obs->relayEngineEof = true;
          if (graceEnd == 0) graceEnd = vf::nowSec() + 0.6;
        }
      }
    }
    close(a);
    close(b);
    obs->relayEngineEof = true;
  }
  void join()
  {
    if (th.joinable()) th.join();
    if (lfd >= 0) close(lfd);
  }
};

// ------------------------------------------------------------------------------------------------ OpenSSL peer
static int verToNum(int v)
{
  switch (v)
  {
  case TLS1_VERSION: return 10;
  case TLS1_1_VERSION: return 11;
  case TLS1_2_VERSION: return 12;
  case TLS1_3_VERSION: return 13;
  default: return v == 0 ? 0 : 9; // SSL3 or unknown: below every floor
  }
}
static int numToVer(int n)
{
  switch (n)
  {
  case 10: return TLS1_VERSION;
  case 11: return TLS1_1_VERSION;
  case 12: return TLS1_2_VERSION;
  case 13: return TLS1_3_VERSION;
  default: return 0;
  }
}
static std::string sslErr()
{
  unsigned long e = ERR_get_error();
  if (!e) return "-";
  char b[200];
  ERR_error_string_n(e, b, sizeof b);
  ERR_clear_error();
  return b;
}

// the peer is as permissive as OpenSSL allows: every version from TLS 1.0 to its ceiling, security level 0
static SSL_CTX *peerCtx(bool server, int maxNum)
{
  SSL_CTX *ctx = SSL_CTX_new(server ? TLS_server_method() : TLS_client_method());
  SSL_CTX_set_security_level(ctx, 0);
  SSL_CTX_set_cipher_list(ctx, "ALL:@SECLEVEL=0");
  SSL_CTX_set_min_proto_version(ctx, TLS1_VERSION);
  SSL_CTX_set_max_proto_version(ctx, numToVer(maxNum));
  SSL_CTX_set_verify(ctx, SSL_VERIFY_NONE, nullptr);
  return ctx;
}

static bool useCert(SSL_CTX *ctx, const std::string &cert, const std::string &key)
{
  return SSL_CTX_use_certificate_file(ctx, (g_certs + "/" + cert).c_str(), SSL_FILETYPE_PEM) == 1 &&
         SSL_CTX_use_PrivateKey_file(ctx, (g_certs + "/" + key).c_str(), SSL_FILETYPE_PEM) == 1;
}

static std::string httpResponse()
{
  return "HTTP/1.1 200 OK\r\nContent-Type: text/plain\r\nContent-Length: " + std::to_string(kPeerMarker.size()) +
         "\r\nConnection: close\r\n\r\n" + kPeerMarker;
}

static std::string garbageBlob(int variant)
{
  switch (variant % 5)
  {
  case 0: return std::string("\x15\x03\x03\x00\x02\x02\x28", 7);                         // a TLS alert record (handshake_failure)
  case 1: return std::string("\x16\x03\x03\xff\xff", 5) + std::string(64, '\x41');       // handshake record, absurd length
  case 2: return "HTTP/1.1 400 Bad Request\r\nContent-Length: 0\r\n\r\n";               // a clear-text protocol answer
  case 3: return std::string("\x80\x2e\x01\x00\x02", 5) + std::string(41, '\x00');       // SSLv2-style hello
  default:
  {
    std::string s;
    unsigned x = 0x9e3779b9u * (unsigned)(variant + 1);
    for (int i = 0; i < 200; ++i)
    {
      x = x * 1664525u + 1013904223u;
      s += (char)(x >> 24);
    }
    return s;
  }
  }
}

// read raw bytes until the marker shows, the other side closes, or the tuple ends
static void rawDrain(int fd, Obs &obs, const std::string &needle, std::atomic<bool> &flag, bool stopOnMarker)
{
  std::string acc;
  setIoTimeout(fd, 100);
  while (!timeUp())
  {
    char buf[8192];
    ssize_t n = recv(fd, buf, sizeof buf, 0);
    if (n > 0)
    {
      if (acc.size() < (1u << 20)) acc.append(buf, (size_t)n);
      if (acc.find(needle) != std::string::npos)
      {
        flag = true;
        if (stopOnMarker) return;
      }
    }
    else if (n == 0)
      return;
    else if (errno != EAGAIN && errno != EWOULDBLOCK && errno != EINTR)
      return;
  }
  (void)obs;
}

// after a completed handshake: exchange the markers through the TLS session
enum class Xchg
{
  Raw,        // write the peer marker, read until the engine marker shows
  HttpServer, // the peer is an HTTP server: answer the first complete request
  HttpClient  // the peer is an HTTP client: send a GET, read the response
};
static std::string httpRequest()
{
  return "GET /c07?m=" + kPeerMarker + " HTTP/1.1\r\nHost: localhost\r\nX-Marker: " + kPeerMarker +
         "\r\nConnection: close\r\n\r\n";
}
static void tlsExchange(SSL *ssl, int fd, Obs &obs, Xchg mode)
{
  setIoTimeout(fd, 100);
  std::string acc;
  bool wrote = false;
  auto write = [&](const std::string &out)
  {
    SSL_write(ssl, out.data(), (int)out.size());
    wrote = true;
  };
  if (mode == Xchg::Raw) write(kPeerMarker);
  if (mode == Xchg::HttpClient) write(httpRequest());
  while (!timeUp())
  {
    char buf[8192];
    int n = SSL_read(ssl, buf, sizeof buf);
    if (n > 0)
    {
      acc.append(buf, (size_t)n);
      if (acc.find(kEngineMarker) != std::string::npos) obs.appOut = true;
      if (mode == Xchg::HttpServer && !wrote && acc.find("\r\n\r\n") != std::string::npos) write(httpResponse());
      if (obs.appOut && wrote && mode != Xchg::HttpServer) break;
      continue;
    }
    int e = SSL_get_error(ssl, n);
    if (e == SSL_ERROR_WANT_READ || e == SSL_ERROR_WANT_WRITE) continue; // receive timeout: look at the clock again
    obs.setPeerErr("read: " + sslErr());
    break;
  }
}

// blocking handshake with a stop flag (the socket has a short receive timeout)
static bool handshake(SSL *ssl, bool server, Obs &obs)
{
  while (!timeUp())
  {
    int r = server ? SSL_accept(ssl) : SSL_connect(ssl);
    if (r == 1) return true;
    int e = SSL_get_error(ssl, r);
    if (e == SSL_ERROR_WANT_READ || e == SSL_ERROR_WANT_WRITE) continue;
    obs.setPeerErr("handshake: " + sslErr());
    return false;
  }
  return false;
}

// peer when the engine is the client
static void peerServer(const Case &c, Obs &obs, int lfd)
{
  const std::string kind = c.s("peerKind");
  const bool http = c.s("via") == "HttpClient";
  while (!timeUp())
  {
    int fd = acceptUntilStop(lfd);
    if (fd < 0) break;
    if (kind == "TLS")
    {
      SSL_CTX *ctx = peerCtx(true, c.i("serverMax"));
      const std::string sc = c.s("serverCert");
      bool ok = sc == "Valid"        ? useCert(ctx, "srv_valid.pem", "srv_valid.key")
                : sc == "SelfSigned" ? useCert(ctx, "srv_selfsigned.pem", "srv_selfsigned.key")
                : sc == "Expired"    ? useCert(ctx, "srv_expired.pem", "srv_expired.key")
                : sc == "WrongName"  ? useCert(ctx, "srv_wrongname.pem", "srv_wrongname.key")
                                     : useCert(ctx, "srv_valid.pem", "srv_mismatch.key");
      if (!ok) obs.setPeerErr("peer cert load: " + sslErr());
      SSL *ssl = SSL_new(ctx);
      SSL_set_fd(ssl, fd);
      setIoTimeout(fd, 100);
      if (ok && handshake(ssl, true, obs))
      {
        obs.peerVer = verToNum(SSL_version(ssl));
        obs.peerHs = true;
        tlsExchange(ssl, fd, obs, http ? Xchg::HttpServer : Xchg::Raw);
        SSL_shutdown(ssl);
      }
      else
      {
        // keep the socket open for a moment: whatever the engine still sends is seen by the relay
        double until = vf::nowSec() + 0.3;
        setIoTimeout(fd, 50);
        char buf[4096];
        while (!timeUp() && vf::nowSec() < until)
        {
          ssize_t n = recv(fd, buf, sizeof buf, 0);
          if (n == 0) break;
        }
      }
      SSL_free(ssl);
      SSL_CTX_free(ctx);
    }
    else if (kind == "Plaintext")
    {
      if (http)
      {
        // a clear-text HTTP server answers whatever arrives first
        setIoTimeout(fd, 100);
        std::string acc;
        while (!timeUp())
        {
          char buf[4096];
          ssize_t n = recv(fd, buf, sizeof buf, 0);
          if (n > 0)
          {
            acc.append(buf, (size_t)n);
            break;
          }
          if (n == 0) break;
        }
        if (acc.find(kEngineMarker) != std::string::npos) obs.appOut = true;
        std::string r = httpResponse();
        send(fd, r.data(), r.size(), MSG_NOSIGNAL);
      }
      else
      {
        send(fd, kPeerMarker.data(), kPeerMarker.size(), MSG_NOSIGNAL); // a banner, like SMTP/FTP servers send
      }
      rawDrain(fd, obs, kEngineMarker, obs.appOut, true);
      if (obs.appOut)
      {
        // let the reply travel before closing
        double until = vf::nowSec() + 0.2;
        while (!timeUp() && vf::nowSec() < until && !obs.appInMarker) usleep(5000);
      }
    }
    else
    {
      std::string g = garbageBlob(c.i("variant"));
      send(fd, g.data(), g.size(), MSG_NOSIGNAL);
      rawDrain(fd, obs, kEngineMarker, obs.appOut, false);
    }
    close(fd);
    obs.peerDone = true;
  }
  obs.peerDone = true;
}

// peer when the engine is the server
static void peerClient(const Case &c, Obs &obs, uint16_t port)
{
  const std::string kind = c.s("peerKind");
  const bool http = c.s("via") == "HttpServer";
  int fd = connectLoopback(port);
  if (fd < 0)
  {
    obs.setPeerErr("peer connect failed");
    obs.peerDone = true;
    return;
  }
  if (kind == "TLS")
  {
    SSL_CTX *ctx = peerCtx(false, c.i("clientMax"));
    const std::string cc = c.s("clientCert");
    bool ok = true;
    if (cc == "Valid") ok = useCert(ctx, "cli_valid.pem", "cli_valid.key");
    if (cc == "Untrusted") ok = useCert(ctx, "cli_untrusted.pem", "cli_untrusted.key");
    if (cc == "Expired") ok = useCert(ctx, "cli_expired.pem", "cli_expired.key");
    if (!ok) obs.setPeerErr("peer cert load: " + sslErr());
    SSL *ssl = SSL_new(ctx);
    SSL_set_fd(ssl, fd);
    setIoTimeout(fd, 100);
    if (ok && handshake(ssl, false, obs))
    {
      obs.peerVer = verToNum(SSL_version(ssl));
      obs.peerHs = true;
      tlsExchange(ssl, fd, obs, http ? Xchg::HttpClient : Xchg::Raw);
      SSL_shutdown(ssl);
    }
    SSL_free(ssl);
    SSL_CTX_free(ctx);
  }
  else if (kind == "Plaintext")
  {
    const std::string out = http ? httpRequest() : kPeerMarker;
    send(fd, out.data(), out.size(), MSG_NOSIGNAL);
    rawDrain(fd, obs, kEngineMarker, obs.appOut, true);
  }
  else
  {
    std::string g = garbageBlob(c.i("variant"));
    send(fd, g.data(), g.size(), MSG_NOSIGNAL);
    rawDrain(fd, obs, kEngineMarker, obs.appOut, false);
  }
  close(fd);
  obs.peerDone = true;
}

// ------------------------------------------------------------------------------------------------ engine side
static void fillTls(TransportConfig::TlsConfig &t, const Case &c, TlsMode mode)
{
  if (!c.b("tlsEnabled"))
  {
    // two ways of "no context": TLS switched off, or enabled for the other role only
    if (c.i("variant") % 2 == 1)
    {
      t.enabled = true;
      t.defaultMode = TlsMode::None;
    }
    return;
  }
  t.enabled = true;
  t.defaultMode = mode;
  const std::string a = c.s("anchor");
  if (a == "RightCA") t.caFile = g_certs + "/ca.pem";
  if (a == "WrongCA") t.caFile = g_certs + "/ca2.pem";
  t.minVersion = numToVer(c.i("engineMin"));
  if (c.b("lax")) t.ciphers = "ALL:@SECLEVEL=0";
}

static void waitUntil(const std::function<bool()> &done)
{
  while (!timeUp() && !done()) usleep(2000);
}

static void runClientTransport(const Case &c, Obs &obs, uint16_t port, bool sync)
{
  TransportConfig tc;
  tc.connectTimeout = milliseconds(2500);
  tc.handshakeTimeout = milliseconds(2500);
  fillTls(tc.clientTls, c, TlsMode::Client);
  tc.clientTls.verifyPeer = c.b("verify");
  auto t = Transport::tcp(tc);
  std::string acc; // touched by the I/O thread only
  t->onConnect(
    [&](SessionId sid, const TransportAddress &)
    {
      obs.announced = true;
      t->send(sid, kEngineMarker.data(), kEngineMarker.size());
    });
  t->onData(
    [&](SessionId, iora::core::BufferView d, std::chrono::steady_clock::time_point)
    {
      obs.appIn = true;
      acc.append((const char *)d.data(), d.size());
      if (acc.find(kPeerMarker) != std::string::npos) obs.appInMarker = true;
    });
  t->onClose([&](SessionId, const TransportErrorInfo &e) { obs.setClose(e.message); obs.closed = true; });
  auto sr = t->start();
  obs.started = sr.isOk();
  if (!sr.isOk())
  {
    obs.startErr = sr.error().message.substr(0, 100);
    return;
  }
  const std::string host = c.b("byName") ? "localhost" : "127.0.0.1";
  const TlsMode mode = c.b("tlsRequested") ? TlsMode::Client : TlsMode::None;
  if (sync)
  {
    auto r = t->connectSync(host, port, mode, milliseconds(3000));
    if (r.isOk())
    {
      obs.announced = true;
      t->send(r.value(), kEngineMarker.data(), kEngineMarker.size());
    }
    else
    {
      obs.setClose("connectSync: " + r.error().message);
      obs.closed = true;
    }
  }
  else
  {
    auto r = t->connect(host, port, mode);
    if (r.isOk())
      t->send(r.value(), kEngineMarker.data(), kEngineMarker.size()); // before the announce: must be queued, never sent raw
    else
    {
      obs.setClose("connect: " + r.error().message);
      obs.closed = true;
    }
  }
  waitUntil([&] { return obs.closed || (obs.announced && obs.appInMarker && obs.appOut); });
  if (obs.closed && !obs.relayEngineEof)
  {
    // the engine reported the close; give the relay a moment to see the end of the byte stream
    double until = vf::nowSec() + 0.3;
    while (vf::nowSec() < until && !obs.relayEngineEof) usleep(2000);
  }
  if (vf::nowSec() > g_deadline) obs.timeout = true;
  g_stop = true;
  t->stop();
}

static void runClientHttp(const Case &c, Obs &obs, uint16_t port)
{
  HttpClient::Config hc;
  hc.connectTimeout = milliseconds(2500);
  hc.requestTimeout = milliseconds(2500);
  hc.followRedirects = false;
  hc.reuseConnections = false;
  {
    HttpClient client(hc);
    HttpClient::TlsConfig tls;
    tls.verifyPeer = c.b("verify");
    client.setTlsConfig(tls);
    obs.started = true;
    const std::string host = c.b("byName") ? "localhost" : "127.0.0.1";
    const std::string url = std::string(c.b("tlsRequested") ? "https://" : "http://") + host + ":" +
                            std::to_string(port) + "/c07?m=" + kEngineMarker;
    try
    {
      auto resp = client.get(url, {{"X-Marker", kEngineMarker}}, 0);
      obs.announced = true;
      if (!resp.body.empty()) obs.appIn = true;
      if (resp.body.find(kPeerMarker) != std::string::npos) obs.appInMarker = true;
    }
    catch (const std::exception &e)
    {
      obs.setClose(std::string("http: ") + e.what());
      obs.closed = true;
    }
    double until = vf::nowSec() + 0.3;
    while (vf::nowSec() < until && !(obs.relayEngineEof || (obs.announced && obs.appOut))) usleep(2000);
    if (vf::nowSec() > g_deadline) obs.timeout = true;
    g_stop = true;
  }
}

static void runServer(const Case &c, Obs &obs)
{
  TransportConfig tc;
  tc.handshakeTimeout = milliseconds(2500);
  fillTls(tc.serverTls, c, TlsMode::Server);
  if (c.b("tlsEnabled"))
  {
    const std::string sc = c.s("serverCert");
    tc.serverTls.certFile = g_certs + (sc == "Expired" ? "/srv_expired.pem" : "/srv_valid.pem");
    tc.serverTls.keyFile = g_certs + (sc == "Expired" ? "/srv_expired.key" : sc == "KeyMismatch" ? "/other.key" : "/srv_valid.key");
    tc.serverTls.verifyPeer = c.b("requireClientCert");
  }
  auto t = Transport::tcp(tc);
  std::string acc; // touched by the I/O thread only
  t->onAccept(
    [&](SessionId sid, const TransportAddress &)
    {
      obs.accepted = true;
      t->send(sid, kEngineMarker.data(), kEngineMarker.size()); // a banner before the handshake is over: must be queued
    });
  t->onConnect(
    [&](SessionId sid, const TransportAddress &)
    {
      obs.announced = true;
      t->send(sid, kEngineMarker.data(), kEngineMarker.size());
    });
  t->onData(
    [&](SessionId, iora::core::BufferView d, std::chrono::steady_clock::time_point)
    {
      obs.appIn = true;
      acc.append((const char *)d.data(), d.size());
      if (acc.find(kPeerMarker) != std::string::npos) obs.appInMarker = true;
    });
  t->onClose([&](SessionId, const TransportErrorInfo &e) { obs.setClose(e.message); obs.closed = true; });
  auto sr = t->start();
  if (!sr.isOk())
  {
    obs.startErr = sr.error().message.substr(0, 100);
    return;
  }
  auto lr = t->addListener("127.0.0.1", 0, c.b("tlsRequested") ? TlsMode::Server : TlsMode::None);
  if (!lr.isOk())
  {
    obs.startErr = lr.error().message.substr(0, 100);
    t->stop();
    return;
  }
  obs.started = true;
  uint16_t eport = t->getListenerAddress(lr.value()).port;
  Relay relay;
  if (!relay.start(eport, false, &obs))
  {
    obs.startErr = "relay failed";
    t->stop();
    return;
  }
  std::thread peer([&] { peerClient(c, obs, relay.port); });
  double peerDoneAt = 0;
  waitUntil(
    [&]
    {
      if (obs.peerDone && peerDoneAt == 0) peerDoneAt = vf::nowSec();
      if (obs.peerDone && (obs.closed || (obs.appInMarker && obs.appOut))) return true;
      return peerDoneAt > 0 && vf::nowSec() - peerDoneAt > 0.6; // the peer is gone and the engine has nothing to report
    });
  if (!obs.relayEngineEof && obs.closed)
  {
    double until = vf::nowSec() + 0.3;
    while (vf::nowSec() < until && !obs.relayEngineEof) usleep(2000);
  }
  if (vf::nowSec() > g_deadline) obs.timeout = true;
  g_stop = true;
  peer.join();
  t->stop();
  relay.join();
}

// the port of the only listening TCP socket of this process (call before the relay / peer open theirs); 0 if none or several
static int soleListeningPort()
{
  int found = 0, n = 0;
  for (int fd = 3; fd < 1024; ++fd)
  {
    int acc = 0;
    socklen_t al = sizeof acc;
    if (getsockopt(fd, SOL_SOCKET, SO_ACCEPTCONN, &acc, &al) != 0 || !acc) continue;
    sockaddr_storage ss{};
    socklen_t sl = sizeof ss;
    if (getsockname(fd, (sockaddr *)&ss, &sl) != 0) continue;
    if (ss.ss_family == AF_INET)
    {
      found = ntohs(((sockaddr_in *)&ss)->sin_port);
      ++n;
    }
    else if (ss.ss_family == AF_INET6)
    {
      found = ntohs(((sockaddr_in6 *)&ss)->sin6_port);
      ++n;
    }
  }
  return n == 1 ? found : 0;
}

// engine = server through HttpServer::enableTls (requireClientCert is mapped to serverTls.verifyPeer there)
static void runServerHttp(const Case &c, Obs &obs)
{
  // port 0: the kernel picks a free port that nobody else can share (the engine sets SO_REUSEPORT, so a fixed port could
  // be shared with a foreign listener); HttpServer cannot report it, it is read back from the process's own socket below
  HttpServer srv("127.0.0.1", 0);
  try
  {
    if (c.b("tlsRequested"))
    {
      HttpServer::TlsConfig t;
      t.certFile = g_certs + "/srv_valid.pem";
      t.keyFile = g_certs + "/srv_valid.key";
      const std::string a = c.s("anchor");
      if (a == "RightCA") t.caFile = g_certs + "/ca.pem";
      if (a == "WrongCA") t.caFile = g_certs + "/ca2.pem";
      t.requireClientCert = c.b("requireClientCert");
      srv.enableTls(t);
    }
    srv.onGet("/c07",
              [&](const HttpServer::Request &, HttpServer::Response &rs)
              {
                obs.announced = true; // the request reached the application
                obs.appIn = true;
                obs.appInMarker = true;
                rs.body = kEngineMarker;
              });
    srv.start();
  }
  catch (const std::exception &e)
  {
    obs.startErr = std::string(e.what()).substr(0, 100);
    return;
  }
  const int port = soleListeningPort();
  if (port <= 0)
  {
    obs.startErr = "cannot find the HttpServer's listening socket";
    srv.stop();
    return;
  }
  obs.started = true;
  Relay relay;
  if (!relay.start((uint16_t)port, false, &obs))
  {
    obs.startErr = "relay failed";
    srv.stop();
    return;
  }
  std::thread peer([&] { peerClient(c, obs, relay.port); });
  double peerDoneAt = 0;
  waitUntil(
    [&]
    {
      if (obs.peerDone && peerDoneAt == 0) peerDoneAt = vf::nowSec();
      return peerDoneAt > 0 && (obs.appOut || vf::nowSec() - peerDoneAt > 0.3);
    });
  if (vf::nowSec() > g_deadline) obs.timeout = true;
  g_stop = true;
  peer.join();
  srv.stop();
  relay.join();
}

static std::string runCase(const Case &c)
{
  signal(SIGPIPE, SIG_IGN);
  if (!g_debug)
  {
    int dn = open("/dev/null", O_WRONLY);
    if (dn >= 0)
    {
      dup2(dn, 1);
      dup2(dn, 2);
    }
  }
  // hermetic default trust store: exactly the anchor of the tuple (HttpClient has no other way to be given one; the
  // transport uses caFile when an anchor is configured and the default store otherwise)
  const std::string a = c.s("anchor");
  const std::string store = a == "RightCA" ? "/ca.pem" : a == "WrongCA" ? "/ca2.pem" : "/empty.pem";
  setenv("SSL_CERT_FILE", (g_certs + store).c_str(), 1);
  setenv("SSL_CERT_DIR", (g_certs + "/emptydir").c_str(), 1);
  g_deadline = vf::nowSec() + 4.0;
  Obs obs;
  try
  {
    if (c.s("role") == "Client")
    {
      uint16_t pport = 0;
      int plfd = listenLoopback(pport, false);
      Relay relay;
      if (plfd < 0 || !relay.start(pport, true, &obs))
      {
        obs.startErr = "peer/relay listen failed";
      }
      else
      {
        std::thread peer([&] { peerServer(c, obs, plfd); });
        const std::string via = c.s("via");
        if (via == "HttpClient")
          runClientHttp(c, obs, relay.port);
        else
          runClientTransport(c, obs, relay.port, via == "TransportSync");
        g_stop = true;
        peer.join();
        relay.join();
        close(plfd);
      }
    }
    else if (c.s("via") == "HttpServer")
    {
      runServerHttp(c, obs);
    }
    else
    {
      runServer(c, obs);
    }
  }
  catch (const std::exception &e)
  {
    obs.startErr = std::string("exception: ") + e.what();
  }
  vf::Ev ev("Tuple");
  ev.i("id", c.id);
  for (const char *k : {"role", "via", "peerKind", "anchor", "serverCert", "clientCert"}) ev.str(k, c.s(k));
  for (const char *k : {"tlsRequested", "tlsEnabled", "verify", "requireClientCert", "byName", "lax"}) ev.b(k, c.b(k));
  for (const char *k : {"clientMax", "serverMax", "engineMin", "variant"}) ev.i(k, c.i(k));
  ev.b("started", obs.started).b("announced", obs.announced).b("accepted", obs.accepted).b("appOut", obs.appOut);
  ev.b("appIn", obs.appIn).b("appInMarker", obs.appInMarker).b("clearOut", obs.clearOut).b("clearIn", obs.clearIn);
  ev.b("peerHs", obs.peerHs).i("peerVer", obs.peerVer).b("closed", obs.closed).b("timeout", obs.timeout);
  ev.str("closeMsg", obs.closeMsg).str("peerErr", obs.peerErr).str("startErr", obs.startErr);
  return ev.done() + "\n";
}

int main(int argc, char **argv)
{
  g_debug = getenv("VF_DEBUG") != nullptr;
  if (argc >= 6 && std::string(argv[1]) == "run")
  {
    auto lines = vf::readLines(argv[2]);
    g_certs = argv[5];
    try
    {
      vf::certs::ensure(g_certs);
    }
    catch (const std::exception &e)
    {
      fprintf(stderr, "certificate generation failed: %s\n", e.what());
      return 3;
    }
    std::vector<Case> cases;
    for (auto &l : lines) cases.push_back(parseCase(l));
    auto r = vf::runMany((int)cases.size(), atoi(argv[4]), 25.0, std::string(argv[3]) + ".d", argv[3],
                         [&](int i) { return runCase(cases[i]); });
    printf("executions=%d crashed=%d timedOut=%d\n", r.executions, r.crashed, r.timedOut);
    return 0;
  }
  fprintf(stderr, "usage: drv_tls run <cases.txt> <out.ndjson> <parallel> <certdir>\n");
  return 2;
}
