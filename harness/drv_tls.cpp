// C07 conformance driver: realises ONE configuration tuple of spec/transport/TlsPolicy.tla per forked child on the real
// iora engine (Transport / HttpClient / TLS listener / HttpServer) against a scripted peer written with the OpenSSL API (or a
// plaintext / garbage peer), with a byte-scanning relay in the middle that sees the wire.
//
//   drv_tls run <cases.txt> <out.ndjson> <parallel> <certdir>
//
// case line:  <id> key=value ...   keys = the fields of the TlsPolicy tuple (booleans as 0/1) + variant=<n>
//
// URL scheme / port rows (via HttpClient): the URL is built from the tuple's scheme text in the given letter case; with
// port=default the URL has no port and the relay listens on BOTH :443 and :80 of a private loopback address
// (127.a.b.c derived from pid and case id, so parallel children never share it).  The TLS peer looks at the first byte of
// every connection and answers TLS and clear text alike, so a downgraded request completes and is seen.
//
// time rows (certLife / when / transport): the peer's leaf certificate is issued at run time by the test CA with a
// validity window around "now"; the boundary is crossed by moving a VIRTUAL clock: this executable defines time(),
// which libcrypto's X509 verification (X509_cmp_time) and the engine's own time() calls resolve to (checked per tuple by
// the canary: libcrypto's verdict on the leaf at the judged moment must be the one the tuple intends).  transport=Reused
// starts the engine object and runs a first connection before the jump, then judges a NEW connection after it.
// output:     one {"e":"Tuple", <configuration fields>, <observables>} event per case, separated by {"e":"Reset"}
//
// observables (only facts, no judgement - TlsPolicyTrace.tla judges):
//   started    the engine started and (role Server) the listener was added
//   announced  role Client: onConnect fired / connectSync returned ok / HttpClient returned a response
//              role Server: onConnect fired for the accepted session (i.e. after the TLS handshake; NOT onAccept);
//              via HttpServer: the request handler ran
//   accepted   role Server: onAccept fired (TCP accept; informational)
//   appOut     the peer read the engine application's marker (decrypted by OpenSSL, or raw for a non-TLS peer)
//   appIn      the engine's application received bytes through onData / an HTTP response body
//   clearOut   the relay saw the engine application's marker on the wire in clear text
//   engineFirst  "none" | "tls" | "clear": was the first byte the engine put on every connection a TLS record (0x14-0x17)?
//   canary     time rows: libcrypto judged the run-time leaf as intended at the judged moment (else the tuple is void)
//   realised   the driver could set the tuple up (false e.g. when the default ports cannot be bound)
//   warm       transport=Reused: the connection made before the boundary was admitted
//   peerHs     the OpenSSL peer completed a handshake;  peerVer its protocol version (10..13, 0 = none)
//   closed     the engine reported onClose for the session;  timeout: the tuple ran into the driver's deadline
#include "iora/network/http_client.hpp"
#include "iora/network/http_server.hpp"
#include "iora/network/transport.hpp"
#include "iora/network/transport_impl.hpp"

#include "vf/certs.hpp"
#include "vf/exec.hpp"
#include "vf/trace.hpp"

#include <arpa/inet.h>
#include <atomic>
#include <fcntl.h>
#include <map>
#include <mutex>
#include <netinet/in.h>
#include <netinet/tcp.h>
#include <openssl/err.h>
#include <openssl/ssl.h>
#include <poll.h>
#include <signal.h>
#include <sys/socket.h>
#include <thread>

using namespace iora::network;
using std::chrono::milliseconds;

// virtual wall clock: everything in this process that asks time() - libcrypto's certificate validity check included -
// sees real time + g_timeOffset
static std::atomic<long> g_timeOffset{0};
extern "C" time_t time(time_t *t)
{
  struct timespec ts;
  clock_gettime(CLOCK_REALTIME, &ts);
  time_t v = ts.tv_sec + (time_t)g_timeOffset.load();
  if (t) *t = v;
  return v;
}
static const long kJump = 3600; // the boundary is crossed by one hour

static const std::string kEngineMarker = "IORA-C07-ENGINE-APPDATA-7f3a91c2";
static const std::string kPeerMarker = "IORA-C07-PEER-APPDATA-c4d2e8b6";
static std::string g_certs;
static bool g_debug = false;

#define DBG(...)                                                                                                       \
  do                                                                                                                   \
  {                                                                                                                    \
    if (g_debug)                                                                                                       \
    {                                                                                                                  \
      fprintf(stderr, "[drv_tls %d] ", (int)getpid());                                                                 \
      fprintf(stderr, __VA_ARGS__);                                                                                    \
      fprintf(stderr, "\n");                                                                                           \
    }                                                                                                                  \
  } while (0)

// ------------------------------------------------------------------------------------------------ case
struct Case
{
  long id = 0;
  std::map<std::string, std::string> kv;
  std::string s(const char *k) const
  {
    auto it = kv.find(k);
    return it == kv.end() ? std::string() : it->second;
  }
  bool b(const char *k) const { return s(k) == "1"; }
  int i(const char *k) const { return atoi(s(k).c_str()); }
};

static Case parseCase(const std::string &line)
{
  Case c;
  auto w = vf::words(line);
  if (w.empty()) return c;
  c.id = atol(w[0].c_str());
  for (size_t k = 1; k < w.size(); ++k)
  {
    auto eq = w[k].find('=');
    if (eq != std::string::npos) c.kv[w[k].substr(0, eq)] = w[k].substr(eq + 1);
  }
  return c;
}

struct Obs
{
  std::atomic<bool> started{false}, announced{false}, accepted{false}, appOut{false}, appIn{false}, appInMarker{false},
    clearOut{false}, clearIn{false}, peerHs{false}, closed{false}, peerDone{false}, relayEngineEof{false},
    timeout{false}, engineFirstTls{false}, engineFirstClear{false};
  std::atomic<int> peerVer{0};
  std::mutex m;
  std::string closeMsg, peerErr, startErr;
  void setClose(const std::string &s)
  {
    std::lock_guard<std::mutex> g(m);
    if (closeMsg.empty()) closeMsg = s.substr(0, 100);
  }
  void setPeerErr(const std::string &s)
  {
    std::lock_guard<std::mutex> g(m);
    if (peerErr.empty()) peerErr = s.substr(0, 100);
  }
};

static double g_deadline = 0; // absolute (vf::nowSec) end of the tuple
static std::atomic<bool> g_stop{false};
static bool timeUp() { return g_stop.load() || vf::nowSec() > g_deadline; }

// ------------------------------------------------------------------------------------------------ sockets
static int listenLoopback(uint16_t &port, bool dual)
{
  // dual: one socket that accepts both 127.0.0.1 and ::1 (a name such as "localhost" may resolve to either)
  if (dual)
  {
    int fd = socket(AF_INET6, SOCK_STREAM | SOCK_CLOEXEC, 0);
    if (fd >= 0)
    {
      int off = 0, one = 1;
      setsockopt(fd, IPPROTO_IPV6, IPV6_V6ONLY, &off, sizeof off);
      setsockopt(fd, SOL_SOCKET, SO_REUSEADDR, &one, sizeof one);
      sockaddr_in6 a{};
      a.sin6_family = AF_INET6;
      a.sin6_addr = in6addr_any;
      if (bind(fd, (sockaddr *)&a, sizeof a) == 0 && listen(fd, 8) == 0)
      {
        socklen_t sl = sizeof a;
        getsockname(fd, (sockaddr *)&a, &sl);
        port = ntohs(a.sin6_port);
        return fd;
      }
      close(fd);
    }
  }
  int fd = socket(AF_INET, SOCK_STREAM | SOCK_CLOEXEC, 0);
  int one = 1;
  setsockopt(fd, SOL_SOCKET, SO_REUSEADDR, &one, sizeof one);
  sockaddr_in a{};
  a.sin_family = AF_INET;
  a.sin_addr.s_addr = htonl(INADDR_LOOPBACK);
  if (bind(fd, (sockaddr *)&a, sizeof a) != 0 || listen(fd, 8) != 0)
  {
    close(fd);
    return -1;
  }
  socklen_t sl = sizeof a;
  getsockname(fd, (sockaddr *)&a, &sl);
  port = ntohs(a.sin_port);
  return fd;
}

static int listenAt(const std::string &ip, uint16_t port)
{
  int fd = socket(AF_INET, SOCK_STREAM | SOCK_CLOEXEC, 0);
  int one = 1;
  setsockopt(fd, SOL_SOCKET, SO_REUSEADDR, &one, sizeof one);
  sockaddr_in a{};
  a.sin_family = AF_INET;
  a.sin_port = htons(port);
  if (inet_pton(AF_INET, ip.c_str(), &a.sin_addr) != 1 || bind(fd, (sockaddr *)&a, sizeof a) != 0 || listen(fd, 8) != 0)
  {
    close(fd);
    return -1;
  }
  return fd;
}

static int connectLoopback(uint16_t port)
{
  int fd = socket(AF_INET, SOCK_STREAM | SOCK_CLOEXEC, 0);
  sockaddr_in a{};
  a.sin_family = AF_INET;
  a.sin_addr.s_addr = htonl(INADDR_LOOPBACK);
  a.sin_port = htons(port);
  if (connect(fd, (sockaddr *)&a, sizeof a) != 0)
  {
    close(fd);
    return -1;
  }
  int one = 1;
  setsockopt(fd, IPPROTO_TCP, TCP_NODELAY, &one, sizeof one);
  return fd;
}

// accept with a stop flag; -1 when the tuple ended first
static int acceptUntilStop(int lfd)
{
  while (!timeUp())
  {
    pollfd p{lfd, POLLIN, 0};
    if (poll(&p, 1, 50) > 0)
    {
      int fd = accept4(lfd, nullptr, nullptr, SOCK_CLOEXEC);
      if (fd >= 0)
      {
        int one = 1;
        setsockopt(fd, IPPROTO_TCP, TCP_NODELAY, &one, sizeof one);
        return fd;
      }
    }
  }
  return -1;
}

static void setIoTimeout(int fd, int ms)
{
  timeval tv{ms / 1000, (ms % 1000) * 1000};
  setsockopt(fd, SOL_SOCKET, SO_RCVTIMEO, &tv, sizeof tv);
  setsockopt(fd, SOL_SOCKET, SO_SNDTIMEO, &tv, sizeof tv);
}

// ------------------------------------------------------------------------------------------------ relay
// Forwards bytes between the side that connected to it and `targetPort`, keeps a copy of both directions and looks for
// the markers.  engineIsAcceptedSide: role Client (the engine connects to the relay); otherwise the engine is the target.
struct Relay
{
  int lfd = -1;
  uint16_t port = 0, targetPort = 0;
  bool engineIsAcceptedSide = true;
  Obs *obs = nullptr;
  std::thread th;
  long bytesFromEngine = 0, bytesFromPeer = 0;

  bool start(uint16_t target, bool engineAccepted, Obs *o)
  {
    targetPort = target;
    engineIsAcceptedSide = engineAccepted;
    obs = o;
    lfd = listenLoopback(port, true);
    if (lfd < 0) return false;
    th = std::thread([this] { run(); });
    return true;
  }
  bool startAt(const std::string &ip, uint16_t fixedPort, uint16_t target, bool engineAccepted, Obs *o)
  {
    targetPort = target;
    engineIsAcceptedSide = engineAccepted;
    obs = o;
    port = fixedPort;
    lfd = listenAt(ip, fixedPort);
    if (lfd < 0) return false;
    th = std::thread([this] { run(); });
    return true;
  }
  void run()
  {
    while (!timeUp())
    {
      int a = acceptUntilStop(lfd);
      if (a < 0) break;
      int b = connectLoopback(targetPort);
      if (b < 0)
      {
        close(a);
        continue;
      }
      shuttle(a, b);
    }
  }
  void shuttle(int a, int b)
  {
    std::string fromA, fromB;
    bool aOpen = true, bOpen = true, engineSpoke = false;
    double graceEnd = 0;
    while (!timeUp() && (aOpen || bOpen))
    {
      if (graceEnd > 0 && vf::nowSec() > graceEnd) break;
      pollfd p[2] = {{aOpen ? a : -1, POLLIN, 0}, {bOpen ? b : -1, POLLIN, 0}};
      if (poll(p, 2, 20) <= 0) continue;
      for (int k = 0; k < 2; ++k)
      {
        if (!(p[k].revents & (POLLIN | POLLHUP | POLLERR))) continue;
        char buf[16384];
        int from = k == 0 ? a : b, to = k == 0 ? b : a;
        ssize_t n = recv(from, buf, sizeof buf, 0);
        bool fromEngine = (k == 0) == engineIsAcceptedSide;
        if (n > 0)
        {
          std::string &acc = k == 0 ? fromA : fromB;
          if (acc.size() < (1u << 20)) acc.append(buf, (size_t)n);
          if (fromEngine)
          {
            if (!engineSpoke)
            {
              // every TLS record starts with its content type 0x14..0x17; anything else is not TLS
              engineSpoke = true;
              const unsigned char b0 = (unsigned char)buf[0];
              if (b0 >= 0x14 && b0 <= 0x17)
                obs->engineFirstTls = true;
              else
                obs->engineFirstClear = true;
            }
            bytesFromEngine += n;
            if (acc.find(kEngineMarker) != std::string::npos) obs->clearOut = true;
          }
          else
          {
            bytesFromPeer += n;
            if (acc.find(kPeerMarker) != std::string::npos) obs->clearIn = true;
          }
          bool &toOpen = k == 0 ? bOpen : aOpen;
          (void)toOpen;
          ssize_t off = 0;
          while (off < n)
          {
            ssize_t w = send(to, buf + off, (size_t)(n - off), MSG_NOSIGNAL);
            if (w <= 0) break;
            off += w;
          }
        }
        else
        {
          // EOF / reset on this side: pass the FIN on, but keep listening to the other side for a while - an engine
          // that fell back to clear text after a failed handshake would show here
          (k == 0 ? aOpen : bOpen) = false;
          shutdown(to, SHUT_WR);
          if (fromEngine) obs->relayEngineEof = true;
          if (graceEnd == 0) graceEnd = vf::nowSec() + 0.6;
        }
      }
    }
    close(a);
    close(b);
    obs->relayEngineEof = true;
  }
  void join()
  {
    if (th.joinable()) th.join();
    if (lfd >= 0) close(lfd);
  }
};

// ------------------------------------------------------------------------------------------------ OpenSSL peer
static int verToNum(int v)
{
  switch (v)
  {
  case TLS1_VERSION: return 10;
  case TLS1_1_VERSION: return 11;
  case TLS1_2_VERSION: return 12;
  case TLS1_3_VERSION: return 13;
  default: return v == 0 ? 0 : 9; // SSL3 or unknown: below every floor
  }
}
static int numToVer(int n)
{
  switch (n)
  {
  case 10: return TLS1_VERSION;
  case 11: return TLS1_1_VERSION;
  case 12: return TLS1_2_VERSION;
  case 13: return TLS1_3_VERSION;
  default: return 0;
  }
}
static std::string sslErr()
{
  unsigned long e = ERR_get_error();
  if (!e) return "-";
  char b[200];
  ERR_error_string_n(e, b, sizeof b);
  ERR_clear_error();
  return b;
}

// the peer is as permissive as OpenSSL allows: every version from TLS 1.0 to its ceiling, security level 0
static SSL_CTX *peerCtx(bool server, int maxNum)
{
  SSL_CTX *ctx = SSL_CTX_new(server ? TLS_server_method() : TLS_client_method());
  SSL_CTX_set_security_level(ctx, 0);
  SSL_CTX_set_cipher_list(ctx, "ALL:@SECLEVEL=0");
  SSL_CTX_set_min_proto_version(ctx, TLS1_VERSION);
  SSL_CTX_set_max_proto_version(ctx, numToVer(maxNum));
  SSL_CTX_set_verify(ctx, SSL_VERIFY_NONE, nullptr);
  return ctx;
}

static bool useCert(SSL_CTX *ctx, const std::string &cert, const std::string &key)
{
  return SSL_CTX_use_certificate_file(ctx, (g_certs + "/" + cert).c_str(), SSL_FILETYPE_PEM) == 1 &&
         SSL_CTX_use_PrivateKey_file(ctx, (g_certs + "/" + key).c_str(), SSL_FILETYPE_PEM) == 1;
}

static bool useLeaf(SSL_CTX *ctx, const vf::certs::Leaf &l)
{
  return SSL_CTX_use_certificate(ctx, l.cert) == 1 && SSL_CTX_use_PrivateKey(ctx, l.key) == 1;
}

static std::string httpResponse()
{
  return "HTTP/1.1 200 OK\r\nContent-Type: text/plain\r\nContent-Length: " + std::to_string(kPeerMarker.size()) +
         "\r\nConnection: close\r\n\r\n" + kPeerMarker;
}

static std::string garbageBlob(int variant)
{
  switch (variant % 5)
  {
  case 0: return std::string("\x15\x03\x03\x00\x02\x02\x28", 7);                         // a TLS alert record (handshake_failure)
  case 1: return std::string("\x16\x03\x03\xff\xff", 5) + std::string(64, '\x41');       // handshake record, absurd length
  case 2: return "HTTP/1.1 400 Bad Request\r\nContent-Length: 0\r\n\r\n";               // a clear-text protocol answer
  case 3: return std::string("\x80\x2e\x01\x00\x02", 5) + std::string(41, '\x00');       // SSLv2-style hello
  default:
  {
    std::string s;
    unsigned x = 0x9e3779b9u * (unsigned)(variant + 1);
    for (int i = 0; i < 200; ++i)
    {
      x = x * 1664525u + 1013904223u;
      s += (char)(x >> 24);
    }
    return s;
  }
  }
}

// read raw bytes until the marker shows, the other side closes, or the tuple ends
static void rawDrain(int fd, Obs &obs, const std::string &needle, std::atomic<bool> &flag, bool stopOnMarker)
{
  std::string acc;
  setIoTimeout(fd, 100);
  while (!timeUp())
  {
    char buf[8192];
    ssize_t n = recv(fd, buf, sizeof buf, 0);
    if (n > 0)
    {
      if (acc.size() < (1u << 20)) acc.append(buf, (size_t)n);
      if (acc.find(needle) != std::string::npos)
      {
        flag = true;
        if (stopOnMarker) return;
      }
    }
    else if (n == 0)
      return;
    else if (errno != EAGAIN && errno != EWOULDBLOCK && errno != EINTR)
      return;
  }
  (void)obs;
}

// after a completed handshake: exchange the markers through the TLS session
enum class Xchg
{
  Raw,        // write the peer marker, read until the engine marker shows
  HttpServer, // the peer is an HTTP server: answer the first complete request
  HttpClient  // the peer is an HTTP client: send a GET, read the response
};
static std::string httpRequest()
{
  return "GET /c07?m=" + kPeerMarker + " HTTP/1.1\r\nHost: localhost\r\nX-Marker: " + kPeerMarker +
         "\r\nConnection: close\r\n\r\n";
}
static void tlsExchange(SSL *ssl, int fd, Obs &obs, Xchg mode)
{
  setIoTimeout(fd, 100);
  std::string acc;
  bool wrote = false;
  auto write = [&](const std::string &out)
  {
    SSL_write(ssl, out.data(), (int)out.size());
    wrote = true;
  };
  if (mode == Xchg::Raw) write(kPeerMarker);
  if (mode == Xchg::HttpClient) write(httpRequest());
  while (!timeUp())
  {
    char buf[8192];
    int n = SSL_read(ssl, buf, sizeof buf);
    if (n > 0)
    {
      acc.append(buf, (size_t)n);
      if (acc.find(kEngineMarker) != std::string::npos) obs.appOut = true;
      if (mode == Xchg::HttpServer && !wrote && acc.find("\r\n\r\n") != std::string::npos) write(httpResponse());
      if (obs.appOut && wrote && mode != Xchg::HttpServer) break;
      continue;
    }
    int e = SSL_get_error(ssl, n);
    if (e == SSL_ERROR_WANT_READ || e == SSL_ERROR_WANT_WRITE) continue; // receive timeout: look at the clock again
    obs.setPeerErr("read: " + sslErr());
    break;
  }
}

// blocking handshake with a stop flag (the socket has a short receive timeout)
static bool handshake(SSL *ssl, bool server, Obs &obs)
{
  while (!timeUp())
  {
    int r = server ? SSL_accept(ssl) : SSL_connect(ssl);
    if (r == 1) return true;
    int e = SSL_get_error(ssl, r);
    if (e == SSL_ERROR_WANT_READ || e == SSL_ERROR_WANT_WRITE) continue;
    obs.setPeerErr("handshake: " + sslErr());
    return false;
  }
  return false;
}

// wait for the first byte of a connection without consuming it: 1 = a TLS record, 0 = something else, -1 = nothing came
static int peekIsTls(int fd)
{
  while (!timeUp())
  {
    pollfd p{fd, POLLIN, 0};
    if (poll(&p, 1, 50) <= 0) continue;
    unsigned char b = 0;
    ssize_t n = recv(fd, &b, 1, MSG_PEEK);
    if (n == 1) return (b >= 0x14 && b <= 0x17) ? 1 : 0;
    if (n == 0) return -1;
    if (errno != EAGAIN && errno != EWOULDBLOCK && errno != EINTR) return -1;
  }
  return -1;
}

// a clear-text conversation on an accepted connection (the plaintext peer, and the TLS peer when the engine spoke clear text)
static void clearServerSide(int fd, Obs &obs, bool http, bool answerFirst)
{
  if (http)
  {
    // a clear-text HTTP server answers whatever arrives first
    setIoTimeout(fd, 100);
    std::string acc;
    while (!timeUp())
    {
      char buf[4096];
      ssize_t n = recv(fd, buf, sizeof buf, 0);
      if (n > 0)
      {
        acc.append(buf, (size_t)n);
        break;
      }
      if (n == 0) break;
    }
    if (acc.find(kEngineMarker) != std::string::npos) obs.appOut = true;
    std::string r = httpResponse();
    send(fd, r.data(), r.size(), MSG_NOSIGNAL);
  }
  else if (answerFirst)
  {
    send(fd, kPeerMarker.data(), kPeerMarker.size(), MSG_NOSIGNAL); // a banner, like SMTP/FTP servers send
  }
  rawDrain(fd, obs, kEngineMarker, obs.appOut, true);
  if (obs.appOut)
  {
    // let the reply travel before closing
    double until = vf::nowSec() + 0.2;
    while (!timeUp() && vf::nowSec() < until && !obs.appInMarker) usleep(5000);
  }
}

// peer when the engine is the client.  The TLS peer decides per connection, on its first byte, whether to answer TLS or
// clear text (so that a session that was silently downgraded completes and is seen for what it is).
static void peerServer(const Case &c, Obs &obs, int lfd, const vf::certs::Leaf *leaf)
{
  const std::string kind = c.s("peerKind");
  const bool http = c.s("via") == "HttpClient";
  while (!timeUp())
  {
    int fd = acceptUntilStop(lfd);
    if (fd < 0) break;
    if (kind == "TLS")
    {
      const int first = peekIsTls(fd);
      if (first == 0)
      {
        clearServerSide(fd, obs, http, true);
      }
      else if (first == 1)
      {
        SSL_CTX *ctx = peerCtx(true, c.i("serverMax"));
        const std::string sc = c.s("serverCert");
        bool ok = leaf               ? useLeaf(ctx, *leaf)
                  : sc == "Valid"      ? useCert(ctx, "srv_valid.pem", "srv_valid.key")
                  : sc == "SelfSigned" ? useCert(ctx, "srv_selfsigned.pem", "srv_selfsigned.key")
                  : sc == "Expired"    ? useCert(ctx, "srv_expired.pem", "srv_expired.key")
                  : sc == "WrongName"  ? useCert(ctx, "srv_wrongname.pem", "srv_wrongname.key")
                                       : useCert(ctx, "srv_valid.pem", "srv_mismatch.key");
        if (!ok) obs.setPeerErr("peer cert load: " + sslErr());
        SSL *ssl = SSL_new(ctx);
        SSL_set_fd(ssl, fd);
        setIoTimeout(fd, 100);
        if (ok && handshake(ssl, true, obs))
        {
          obs.peerVer = verToNum(SSL_version(ssl));
          obs.peerHs = true;
          tlsExchange(ssl, fd, obs, http ? Xchg::HttpServer : Xchg::Raw);
          SSL_shutdown(ssl);
        }
        else
        {
          // keep the socket open for a moment: whatever the engine still sends is seen by the relay
          double until = vf::nowSec() + 0.3;
          setIoTimeout(fd, 50);
          char buf[4096];
          while (!timeUp() && vf::nowSec() < until)
          {
            ssize_t n = recv(fd, buf, sizeof buf, 0);
            if (n == 0) break;
          }
        }
        SSL_free(ssl);
        SSL_CTX_free(ctx);
      }
    }
    else if (kind == "Plaintext")
    {
      clearServerSide(fd, obs, http, true);
    }
    else
    {
      std::string g = garbageBlob(c.i("variant"));
      send(fd, g.data(), g.size(), MSG_NOSIGNAL);
      rawDrain(fd, obs, kEngineMarker, obs.appOut, false);
    }
    close(fd);
    obs.peerDone = true;
  }
  obs.peerDone = true;
}

// peer when the engine is the server
static void peerClient(const Case &c, Obs &obs, uint16_t port, const vf::certs::Leaf *leaf)
{
  const std::string kind = c.s("peerKind");
  const bool http = c.s("via") == "HttpServer";
  int fd = connectLoopback(port);
  if (fd < 0)
  {
    obs.setPeerErr("peer connect failed");
    obs.peerDone = true;
    return;
  }
  if (kind == "TLS")
  {
    SSL_CTX *ctx = peerCtx(false, c.i("clientMax"));
    const std::string cc = c.s("clientCert");
    bool ok = true;
    if (leaf)
      ok = useLeaf(ctx, *leaf);
    else if (cc == "Valid")
      ok = useCert(ctx, "cli_valid.pem", "cli_valid.key");
    else if (cc == "Untrusted")
      ok = useCert(ctx, "cli_untrusted.pem", "cli_untrusted.key");
    else if (cc == "Expired")
      ok = useCert(ctx, "cli_expired.pem", "cli_expired.key");
    if (!ok) obs.setPeerErr("peer cert load: " + sslErr());
    SSL *ssl = SSL_new(ctx);
    SSL_set_fd(ssl, fd);
    setIoTimeout(fd, 100);
    if (ok && handshake(ssl, false, obs))
    {
      obs.peerVer = verToNum(SSL_version(ssl));
      obs.peerHs = true;
      tlsExchange(ssl, fd, obs, http ? Xchg::HttpClient : Xchg::Raw);
      SSL_shutdown(ssl);
    }
    SSL_free(ssl);
    SSL_CTX_free(ctx);
  }
  else if (kind == "Plaintext")
  {
    const std::string out = http ? httpRequest() : kPeerMarker;
    send(fd, out.data(), out.size(), MSG_NOSIGNAL);
    rawDrain(fd, obs, kEngineMarker, obs.appOut, true);
  }
  else
  {
    std::string g = garbageBlob(c.i("variant"));
    send(fd, g.data(), g.size(), MSG_NOSIGNAL);
    rawDrain(fd, obs, kEngineMarker, obs.appOut, false);
  }
  close(fd);
  obs.peerDone = true;
}

// ------------------------------------------------------------------------------------------------ rigs
// everything on the far side of ONE connection attempt of a client-role tuple: the scripted server, the relay(s) in front
// of it, and the Obs they report to.  A tuple with transport=Reused has two of them (before / after the boundary), so that
// nothing of the first connection can leak into the observables of the judged one.
struct ClientRig
{
  Obs *obs = nullptr;
  int plfd = -1;
  uint16_t pport = 0;
  Relay relay, relay80;
  bool defaultPorts = false;
  std::string host; // what the engine is told to connect to
  uint16_t port = 0; // 0: no port in the URL
  std::thread peer;

  bool start(const Case &c, Obs *o, const vf::certs::Leaf *leaf)
  {
    obs = o;
    plfd = listenLoopback(pport, false);
    if (plfd < 0) return false;
    defaultPorts = c.s("port") == "default";
    if (defaultPorts)
    {
      // a loopback address of our own: nobody else listens on its :443 / :80
      const long pid = (long)getpid();
      host = "127." + std::to_string(16 + pid % 200) + "." + std::to_string((c.id / 254) % 256) + "." +
             std::to_string(1 + c.id % 254);
      port = 0;
      if (!relay.startAt(host, 443, pport, true, o) || !relay80.startAt(host, 80, pport, true, o)) return false;
    }
    else
    {
      host = c.b("byName") ? "localhost" : "127.0.0.1";
      if (!relay.start(pport, true, o)) return false;
      port = relay.port;
    }
    peer = std::thread([this, &c, leaf] { peerServer(c, *obs, plfd, leaf); });
    return true;
  }
  void join()
  {
    if (peer.joinable()) peer.join();
    relay.join();
    relay80.join();
    if (plfd >= 0) close(plfd);
    plfd = -1;
  }
};

// the run-time leaf of a time row (nullptr for the static rows) and the canary
struct TimeRow
{
  bool active = false, after = false, reused = false, expectOk = true;
  vf::certs::Leaf leaf;
  bool canaryOk = true;
  const vf::certs::Leaf *ptr() const { return active ? &leaf : nullptr; }

  void init(const Case &c)
  {
    const std::string life = c.s("certLife");
    active = life == "ExpiresLater" || life == "ValidLater";
    after = c.s("when") == "After";
    reused = c.s("transport") == "Reused";
    if (!active) return;
    const bool server = c.s("role") == "Client"; // the PEER's certificate: a server certificate when the engine is the client
    const char *cn = server ? "localhost" : "client";
    const char *san = server ? "DNS:localhost,IP:127.0.0.1,IP:::1" : nullptr;
    if (life == "ExpiresLater")
      leaf = vf::certs::makeLeafNow(g_certs, cn, san, -86400, kJump / 4); // expires a quarter of an hour from now
    else
      leaf = vf::certs::makeLeafNow(g_certs, cn, san, kJump / 2, 315360000L); // becomes valid half an hour from now
    expectOk = (life == "ExpiresLater") ? !after : after;
  }
  // move the clock across the boundary (if the judged connection is after it) and ask libcrypto what it thinks now
  void cross()
  {
    if (!active) return;
    if (after) g_timeOffset = kJump;
    const int v = vf::certs::verifyNow(leaf);
    canaryOk = expectOk ? v == 0 : (v == X509_V_ERR_CERT_HAS_EXPIRED || v == X509_V_ERR_CERT_NOT_YET_VALID);
  }
};

// ------------------------------------------------------------------------------------------------ engine side
static void fillTls(TransportConfig::TlsConfig &t, const Case &c, TlsMode mode)
{
  if (!c.b("tlsEnabled"))
  {
    // two ways of "no context": TLS switched off, or enabled for the other role only
    if (c.i("variant") % 2 == 1)
    {
      t.enabled = true;
      t.defaultMode = TlsMode::None;
    }
    return;
  }
  t.enabled = true;
  t.defaultMode = mode;
  const std::string a = c.s("anchor");
  if (a == "RightCA") t.caFile = g_certs + "/ca.pem";
  if (a == "WrongCA") t.caFile = g_certs + "/ca2.pem";
  t.minVersion = numToVer(c.i("engineMin"));
  if (c.b("lax")) t.ciphers = "ALL:@SECLEVEL=0";
}

static void waitUntil(const std::function<bool()> &done)
{
  while (!timeUp() && !done()) usleep(2000);
}
static void waitFor(double sec, const std::function<bool()> &done)
{
  const double until = vf::nowSec() + sec;
  while (!timeUp() && vf::nowSec() < until && !done()) usleep(2000);
}

struct TupleRun
{
  Obs obs;      // the judged connection
  Obs warmObs;  // the connection before the boundary (transport=Reused)
  bool warm = false, realised = true;
  TimeRow tr;
};

static void runClientTransport(const Case &c, TupleRun &R, bool sync)
{
  Obs &obs = R.obs;
  TimeRow &tr = R.tr;
  if (tr.active && tr.after && !tr.reused) g_timeOffset = kJump; // a fresh transport, started after the boundary
  TransportConfig tc;
  tc.connectTimeout = milliseconds(2500);
  tc.handshakeTimeout = milliseconds(2500);
  fillTls(tc.clientTls, c, TlsMode::Client);
  tc.clientTls.verifyPeer = c.b("verify");
  auto t = Transport::tcp(tc);
  std::atomic<Obs *> cur{tr.reused ? &R.warmObs : &obs};
  std::string acc; // touched by the I/O thread only
  t->onConnect(
    [&](SessionId sid, const TransportAddress &)
    {
      cur.load()->announced = true;
      t->send(sid, kEngineMarker.data(), kEngineMarker.size());
    });
  t->onData(
    [&](SessionId, iora::core::BufferView d, std::chrono::steady_clock::time_point)
    {
      Obs *o = cur.load();
      o->appIn = true;
      acc.append((const char *)d.data(), d.size());
      if (acc.find(kPeerMarker) != std::string::npos) o->appInMarker = true;
    });
  t->onClose([&](SessionId, const TransportErrorInfo &e) { cur.load()->setClose(e.message); cur.load()->closed = true; });
  auto sr = t->start();
  obs.started = sr.isOk();
  if (!sr.isOk())
  {
    obs.startErr = sr.error().message.substr(0, 100);
    return;
  }
  const TlsMode mode = c.b("tlsRequested") ? TlsMode::Client : TlsMode::None;
  // one connection attempt against one rig; returns the session id (0 if none)
  auto attempt = [&](ClientRig &rig, Obs &o) -> SessionId
  {
    SessionId sid = 0;
    if (sync)
    {
      auto r = t->connectSync(rig.host, rig.port, mode, milliseconds(3000));
      if (r.isOk())
      {
        sid = r.value();
        o.announced = true;
        t->send(sid, kEngineMarker.data(), kEngineMarker.size());
      }
      else
      {
        o.setClose("connectSync: " + r.error().message);
        o.closed = true;
      }
    }
    else
    {
      auto r = t->connect(rig.host, rig.port, mode);
      if (r.isOk())
      {
        sid = r.value();
        t->send(sid, kEngineMarker.data(), kEngineMarker.size()); // before the announce: must be queued, never sent raw
      }
      else
      {
        o.setClose("connect: " + r.error().message);
        o.closed = true;
      }
    }
    waitUntil([&] { return o.closed || (o.announced && o.appInMarker && o.appOut); });
    if (o.closed && !o.relayEngineEof) waitFor(0.3, [&] { return o.relayEngineEof.load(); });
    return sid;
  };
  ClientRig warmRig, rig;
  if (tr.reused)
  {
    if (!warmRig.start(c, &R.warmObs, tr.ptr()))
    {
      R.realised = false;
      obs.startErr = "peer/relay listen failed";
    }
    else
    {
      SessionId sid = attempt(warmRig, R.warmObs);
      R.warm = R.warmObs.announced && R.warmObs.appOut;
      if (sid && !R.warmObs.closed)
      {
        t->close(sid);
        waitFor(1.0, [&] { return R.warmObs.closed.load(); });
      }
      acc.clear();
    }
  }
  tr.cross();
  cur = &obs;
  if (R.realised)
  {
    if (!rig.start(c, &obs, tr.ptr()))
    {
      R.realised = false;
      obs.startErr = "peer/relay listen failed";
    }
    else
      attempt(rig, obs);
  }
  if (vf::nowSec() > g_deadline) obs.timeout = true;
  g_stop = true;
  t->stop();
  warmRig.join();
  rig.join();
}

static std::string schemeText(const Case &c)
{
  const std::string s = c.s("scheme");
  if (s == "garbage")
  {
    static const char *const g[] = {"httpss", "ftp", "htps", "shttp", "https+x"};
    return g[c.i("variant") % 5];
  }
  if (s.empty() || s == "-") return c.b("tlsRequested") ? "https" : "http";
  return s;
}

static void runClientHttp(const Case &c, TupleRun &R)
{
  Obs &obs = R.obs;
  TimeRow &tr = R.tr;
  if (tr.active && tr.after && !tr.reused) g_timeOffset = kJump;
  HttpClient::Config hc;
  hc.connectTimeout = milliseconds(2500);
  hc.requestTimeout = milliseconds(2500);
  hc.followRedirects = false;
  hc.reuseConnections = false;
  ClientRig warmRig, rig;
  {
    HttpClient client(hc);
    HttpClient::TlsConfig tls;
    tls.verifyPeer = c.b("verify");
    client.setTlsConfig(tls);
    obs.started = true;
    auto attempt = [&](ClientRig &rg, Obs &o)
    {
      const std::string url = schemeText(c) + "://" + rg.host + (rg.port ? ":" + std::to_string(rg.port) : std::string()) +
                              "/c07?m=" + kEngineMarker;
      try
      {
        auto resp = client.get(url, {{"X-Marker", kEngineMarker}, {"Authorization", "Bearer " + kEngineMarker}}, 0);
        o.announced = true;
        if (!resp.body.empty()) o.appIn = true;
        if (resp.body.find(kPeerMarker) != std::string::npos) o.appInMarker = true;
      }
      catch (const std::exception &e)
      {
        o.setClose(std::string("http: ") + e.what());
        o.closed = true;
      }
      waitFor(0.3, [&] { return o.relayEngineEof || (o.announced && o.appOut); });
    };
    if (tr.reused)
    {
      if (!warmRig.start(c, &R.warmObs, tr.ptr()))
        R.realised = false;
      else
      {
        attempt(warmRig, R.warmObs);
        R.warm = R.warmObs.announced && R.warmObs.appOut;
      }
    }
    tr.cross();
    if (R.realised)
    {
      if (!rig.start(c, &obs, tr.ptr()))
      {
        R.realised = false;
        obs.startErr = "peer/relay listen failed (default ports not bindable?)";
      }
      else
        attempt(rig, obs);
    }
    if (vf::nowSec() > g_deadline) obs.timeout = true;
    g_stop = true;
  }
  warmRig.join();
  rig.join();
}

static void runServer(const Case &c, TupleRun &R)
{
  Obs &obs = R.obs;
  TimeRow &tr = R.tr;
  if (tr.active && tr.after && !tr.reused) g_timeOffset = kJump;
  TransportConfig tc;
  tc.handshakeTimeout = milliseconds(2500);
  fillTls(tc.serverTls, c, TlsMode::Server);
  if (c.b("tlsEnabled"))
  {
    const std::string sc = c.s("serverCert");
    tc.serverTls.certFile = g_certs + (sc == "Expired" ? "/srv_expired.pem" : "/srv_valid.pem");
    tc.serverTls.keyFile = g_certs + (sc == "Expired" ? "/srv_expired.key" : sc == "KeyMismatch" ? "/other.key" : "/srv_valid.key");
    tc.serverTls.verifyPeer = c.b("requireClientCert");
  }
  auto t = Transport::tcp(tc);
  std::atomic<Obs *> cur{tr.reused ? &R.warmObs : &obs};
  std::string acc; // touched by the I/O thread only
  t->onAccept(
    [&](SessionId sid, const TransportAddress &)
    {
      cur.load()->accepted = true;
      t->send(sid, kEngineMarker.data(), kEngineMarker.size()); // a banner before the handshake is over: must be queued
    });
  t->onConnect(
    [&](SessionId sid, const TransportAddress &)
    {
      cur.load()->announced = true;
      t->send(sid, kEngineMarker.data(), kEngineMarker.size());
    });
  t->onData(
    [&](SessionId, iora::core::BufferView d, std::chrono::steady_clock::time_point)
    {
      Obs *o = cur.load();
      o->appIn = true;
      acc.append((const char *)d.data(), d.size());
      if (acc.find(kPeerMarker) != std::string::npos) o->appInMarker = true;
    });
  t->onClose([&](SessionId, const TransportErrorInfo &e) { cur.load()->setClose(e.message); cur.load()->closed = true; });
  auto sr = t->start();
  if (!sr.isOk())
  {
    obs.startErr = sr.error().message.substr(0, 100);
    return;
  }
  auto lr = t->addListener("127.0.0.1", 0, c.b("tlsRequested") ? TlsMode::Server : TlsMode::None);
  if (!lr.isOk())
  {
    obs.startErr = lr.error().message.substr(0, 100);
    t->stop();
    return;
  }
  obs.started = true;
  uint16_t eport = t->getListenerAddress(lr.value()).port;
  // one scripted client against the listener, through a relay of its own
  struct ServerRig
  {
    Relay relay;
    std::thread peer;
  };
  auto attempt = [&](ServerRig &rg, Obs &o) -> bool
  {
    if (!rg.relay.start(eport, false, &o)) return false;
    rg.peer = std::thread([&] { peerClient(c, o, rg.relay.port, tr.ptr()); });
    double peerDoneAt = 0;
    waitUntil(
      [&]
      {
        if (o.peerDone && peerDoneAt == 0) peerDoneAt = vf::nowSec();
        if (o.peerDone && (o.closed || (o.appInMarker && o.appOut))) return true;
        return peerDoneAt > 0 && vf::nowSec() - peerDoneAt > 0.6; // the peer is gone and the engine has nothing to report
      });
    if (!o.relayEngineEof && o.closed) waitFor(0.3, [&] { return o.relayEngineEof.load(); });
    return true;
  };
  ServerRig warmRig, rig;
  if (tr.reused)
  {
    if (!attempt(warmRig, R.warmObs))
      R.realised = false;
    else
    {
      R.warm = R.warmObs.announced && R.warmObs.appOut;
      // the first session must be over before the observables are switched to the judged one
      waitFor(1.0, [&] { return R.warmObs.closed.load() || !R.warmObs.accepted; });
      acc.clear();
    }
  }
  tr.cross();
  cur = &obs;
  if (R.realised && !attempt(rig, obs))
  {
    R.realised = false;
    obs.startErr = "relay failed";
  }
  if (vf::nowSec() > g_deadline) obs.timeout = true;
  g_stop = true;
  if (warmRig.peer.joinable()) warmRig.peer.join();
  if (rig.peer.joinable()) rig.peer.join();
  t->stop();
  warmRig.relay.join();
  rig.relay.join();
}

// the port of the only listening TCP socket of this process (call before the relay / peer open theirs); 0 if none or several
static int soleListeningPort()
{
  int found = 0, n = 0;
  for (int fd = 3; fd < 1024; ++fd)
  {
    int acc = 0;
    socklen_t al = sizeof acc;
    if (getsockopt(fd, SOL_SOCKET, SO_ACCEPTCONN, &acc, &al) != 0 || !acc) continue;
    sockaddr_storage ss{};
    socklen_t sl = sizeof ss;
    if (getsockname(fd, (sockaddr *)&ss, &sl) != 0) continue;
    if (ss.ss_family == AF_INET)
    {
      found = ntohs(((sockaddr_in *)&ss)->sin_port);
      ++n;
    }
    else if (ss.ss_family == AF_INET6)
    {
      found = ntohs(((sockaddr_in6 *)&ss)->sin6_port);
      ++n;
    }
  }
  return n == 1 ? found : 0;
}

// engine = server through HttpServer::enableTls (requireClientCert is mapped to serverTls.verifyPeer there)
static void runServerHttp(const Case &c, TupleRun &R)
{
  Obs &obs = R.obs;
  // port 0: the kernel picks a free port that nobody else can share (the engine sets SO_REUSEPORT, so a fixed port could
  // be shared with a foreign listener); HttpServer cannot report it, it is read back from the process's own socket below
  HttpServer srv("127.0.0.1", 0);
  try
  {
    if (c.b("tlsRequested"))
    {
      HttpServer::TlsConfig t;
      t.certFile = g_certs + "/srv_valid.pem";
      t.keyFile = g_certs + "/srv_valid.key";
      const std::string a = c.s("anchor");
      if (a == "RightCA") t.caFile = g_certs + "/ca.pem";
      if (a == "WrongCA") t.caFile = g_certs + "/ca2.pem";
      t.requireClientCert = c.b("requireClientCert");
      srv.enableTls(t);
    }
    srv.onGet("/c07",
              [&](const HttpServer::Request &, HttpServer::Response &rs)
              {
                obs.announced = true; // the request reached the application
                obs.appIn = true;
                obs.appInMarker = true;
                rs.body = kEngineMarker;
              });
    srv.start();
  }
  catch (const std::exception &e)
  {
    obs.startErr = std::string(e.what()).substr(0, 100);
    return;
  }
  const int port = soleListeningPort();
  if (port <= 0)
  {
    obs.startErr = "cannot find the HttpServer's listening socket";
    R.realised = false;
    srv.stop();
    return;
  }
  obs.started = true;
  Relay relay;
  if (!relay.start((uint16_t)port, false, &obs))
  {
    obs.startErr = "relay failed";
    R.realised = false;
    srv.stop();
    return;
  }
  std::thread peer([&] { peerClient(c, obs, relay.port, nullptr); });
  double peerDoneAt = 0;
  waitUntil(
    [&]
    {
      if (obs.peerDone && peerDoneAt == 0) peerDoneAt = vf::nowSec();
      return peerDoneAt > 0 && (obs.appOut || vf::nowSec() - peerDoneAt > 0.3);
    });
  if (vf::nowSec() > g_deadline) obs.timeout = true;
  g_stop = true;
  peer.join();
  srv.stop();
  relay.join();
}

static std::string runCase(const Case &c)
{
  signal(SIGPIPE, SIG_IGN);
  if (!g_debug)
  {
    int dn = open("/dev/null", O_WRONLY);
    if (dn >= 0)
    {
      dup2(dn, 1);
      dup2(dn, 2);
    }
  }
  // hermetic default trust store: exactly the anchor of the tuple (HttpClient has no other way to be given one; the
  // transport uses caFile when an anchor is configured and the default store otherwise)
  const std::string a = c.s("anchor");
  const std::string store = a == "RightCA" ? "/ca.pem" : a == "WrongCA" ? "/ca2.pem" : "/empty.pem";
  setenv("SSL_CERT_FILE", (g_certs + store).c_str(), 1);
  setenv("SSL_CERT_DIR", (g_certs + "/emptydir").c_str(), 1);
  TupleRun R;
  Obs &obs = R.obs;
  try
  {
    R.tr.init(c);
    g_deadline = vf::nowSec() + (R.tr.reused ? 7.0 : 4.0);
    const std::string via = c.s("via");
    if (c.s("role") == "Client")
    {
      if (via == "HttpClient")
        runClientHttp(c, R);
      else
        runClientTransport(c, R, via == "TransportSync");
    }
    else if (via == "HttpServer")
      runServerHttp(c, R);
    else
      runServer(c, R);
  }
  catch (const std::exception &e)
  {
    obs.startErr = std::string("exception: ") + e.what();
    R.realised = false;
  }
  g_stop = true;
  vf::Ev ev("Tuple");
  ev.i("id", c.id);
  for (const char *k : {"role", "via", "peerKind", "anchor", "serverCert", "clientCert", "scheme", "port", "certLife", "when",
                        "transport"})
    ev.str(k, c.s(k));
  for (const char *k : {"tlsRequested", "tlsEnabled", "verify", "requireClientCert", "byName", "lax"}) ev.b(k, c.b(k));
  for (const char *k : {"clientMax", "serverMax", "engineMin", "variant"}) ev.i(k, c.i(k));
  ev.b("started", obs.started).b("announced", obs.announced).b("accepted", obs.accepted).b("appOut", obs.appOut);
  ev.b("appIn", obs.appIn).b("appInMarker", obs.appInMarker).b("clearOut", obs.clearOut).b("clearIn", obs.clearIn);
  ev.str("engineFirst", obs.engineFirstClear ? "clear" : obs.engineFirstTls ? "tls" : "none");
  ev.b("peerHs", obs.peerHs).i("peerVer", obs.peerVer).b("closed", obs.closed).b("timeout", obs.timeout);
  ev.b("canary", R.tr.canaryOk).b("realised", R.realised).b("warm", R.warm);
  ev.str("closeMsg", obs.closeMsg).str("peerErr", obs.peerErr).str("startErr", obs.startErr);
  return ev.done() + "\n";
}

int main(int argc, char **argv)
{
  g_debug = getenv("VF_DEBUG") != nullptr;
  if (argc >= 6 && std::string(argv[1]) == "run")
  {
    auto lines = vf::readLines(argv[2]);
    g_certs = argv[5];
    try
    {
      vf::certs::ensure(g_certs);
    }
    catch (const std::exception &e)
    {
      fprintf(stderr, "certificate generation failed: %s\n", e.what());
      return 3;
    }
    std::vector<Case> cases;
    for (auto &l : lines) cases.push_back(parseCase(l));
    auto r = vf::runMany((int)cases.size(), atoi(argv[4]), 30.0, std::string(argv[3]) + ".d", argv[3],
                         [&](int i) { return runCase(cases[i]); });
    printf("executions=%d crashed=%d timedOut=%d\n", r.executions, r.crashed, r.timedOut);
    return 0;
  }
  fprintf(stderr, "usage: drv_tls run <cases.txt> <out.ndjson> <parallel> <certdir>\n");
  return 2;
}
