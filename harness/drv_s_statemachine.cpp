// X05 (extra): iora::core::StateMachine<State, Event, Context> built from a transition table given in the case line, driven by
// thread programs under the deterministic scheduler (both the Context = void and the context-bearing instantiation).
//   drv_s_statemachine run <cases.txt> <out.ndjson> [parallel]
//   drv_s_statemachine dfs "<case line without schedule>" <preemption bound> <max executions> <out.ndjson> [parallel]
//   case:  <ctx 0|1> init=1 rules=f:e:t:g:then:act,... enter=s,s exit=s fenter=s fexit=s any=0|1 [re=<kind>:<index>:<fire|force>:<arg>]
//          | a=fire:1:3:7,read;b=force:2,isin:2 | random <seed> / replay ...
//     rule fields: from, event, to, guard id (0 = none), thenEvent (0 = none), action callback (0|1); listed in INSERTION order
//     enter/exit/fenter/fexit: one callback per listed state, in registration order
//     re=...: the callback of that kind and index (rule number for guard/action, registration number otherwise, 0 for the
//             observer) calls processEvent(arg) / forceState(arg) on the same machine
//     ops: fire:<event>:<bit mask of guards returning true>:<context id>   force:<state>   read   isin:<state>
// Events: see spec/extra/StateMachineTrace.tla.
#include "iora/core/state_machine.hpp"
#include "drv_xcore.hpp"

#include <memory>
#include <thread>
#include <tuple>

enum class S : int
{
};
enum class E : int
{
};
struct Ctx
{
  int c = 0;
  int gv = 0;
};

struct Rule
{
  int from, ev, to, g, then, act;
};
struct Table
{
  int ctx = 0, init = 1, any = 0;
  std::vector<Rule> rules;
  std::vector<int> enter, exit, fenter, fexit;
  std::string reKind, reOp;
  int reIdx = -1, reArg = 0;
};
struct Case
{
  Table tb;
  std::vector<xc::ThreadProg> prog;
  vf::Options opt;
};

static vf::Trace *g_tr = nullptr;
static thread_local const char *t_name = "?";
static thread_local int t_gv = 0; // Context = void: the guards read the calling thread's vector

template <bool WithCtx> struct Mach
{
  using SM = std::conditional_t<WithCtx, iora::core::StateMachine<S, E, Ctx>, iora::core::StateMachine<S, E>>;
  std::unique_ptr<SM> sm;
  const Table *tb = nullptr;

  bool fire(int ev, const Ctx &c)
  {
    if constexpr (WithCtx)
      return sm->processEvent(static_cast<E>(ev), c);
    else
      return sm->processEvent(static_cast<E>(ev));
  }
  // common body of every callback: log what it sees, then possibly re-enter the machine
  template <class... A> void cb(const char *kind, int idx, const std::string &extra, const A &...a)
  {
    vf::Ev e("Cb");
    e.str("t", t_name).str("k", kind).i("i", idx).i("cur", (int)sm->currentState());
    if constexpr (sizeof...(A) == 1) e.i("c", std::get<0>(std::forward_as_tuple(a...)).c);
    e.s += extra; // already-rendered ,"k":v fields
    g_tr->add(e);
    if (tb->reIdx == idx && tb->reKind == kind)
    {
      g_tr->add(vf::Ev("ReCall").str("t", t_name).str("k", kind).i("i", idx));
      if (tb->reOp == "force")
        sm->forceState(static_cast<S>(tb->reArg));
      else if constexpr (sizeof...(A) == 1)
        sm->processEvent(static_cast<E>(tb->reArg), a...);
      else if constexpr (WithCtx)
        sm->processEvent(static_cast<E>(tb->reArg), Ctx{});
      else
        sm->processEvent(static_cast<E>(tb->reArg));
      g_tr->add(vf::Ev("ReRet").str("t", t_name));
    }
  }
  void build(const Table &t)
  {
    tb = &t;
    typename SM::Builder b;
    b.initialState(static_cast<S>(t.init));
    int n = 0;
    for (auto &r : t.rules)
    {
      ++n;
      b.transition(static_cast<S>(r.from), static_cast<E>(r.ev), static_cast<S>(r.to));
      if (r.g)
        b.guard(
          [this, n, g = r.g](const auto &...a) -> bool
          {
            int gv = t_gv;
            if constexpr (sizeof...(a) == 1) gv = std::get<0>(std::forward_as_tuple(a...)).gv;
            this->cb("guard", n, std::string(), a...);
            return (gv >> (g - 1)) & 1;
          });
      if (r.act) b.onTransition([this, n](const auto &...a) { this->cb("action", n, std::string(), a...); });
      if (r.then) b.thenEvent(static_cast<E>(r.then));
    }
    for (size_t i = 0; i < t.enter.size(); ++i)
      b.onEnter(static_cast<S>(t.enter[i]), [this, i](const auto &...a) { this->cb("enter", (int)i + 1, std::string(), a...); });
    for (size_t i = 0; i < t.exit.size(); ++i)
      b.onExit(static_cast<S>(t.exit[i]), [this, i](const auto &...a) { this->cb("exit", (int)i + 1, std::string(), a...); });
    for (size_t i = 0; i < t.fenter.size(); ++i) b.onEnterForce(static_cast<S>(t.fenter[i]), [this, i]() { this->cb("fenter", (int)i + 1, std::string()); });
    for (size_t i = 0; i < t.fexit.size(); ++i) b.onExitForce(static_cast<S>(t.fexit[i]), [this, i]() { this->cb("fexit", (int)i + 1, std::string()); });
    if (t.any)
      b.onAnyTransition(
        [this](S from, E ev, S to)
        {
          this->cb("any", 0, ",\"from\":" + std::to_string((int)from) + ",\"ev\":" + std::to_string((int)ev) + ",\"to\":" + std::to_string((int)to));
        });
    sm = std::make_unique<SM>(b.build());
  }
  void runOp(const std::string &t, const xc::Op &op)
  {
    if (op.op == "fire")
    {
      Ctx c;
      c.gv = op.arg(1);
      c.c = op.arg(2);
      t_gv = c.gv;
      std::vector<int> gv;
      for (int g = 1; g <= 8; ++g)
        if ((c.gv >> (g - 1)) & 1) gv.push_back(g);
      g_tr->add(vf::Ev("Call").str("t", t).str("op", "fire").i("ev", op.arg(0)).ints("gv", gv.begin(), gv.end()).i("c", c.c));
      bool ok = fire(op.arg(0), c);
      g_tr->add(vf::Ev("Ret").str("t", t).str("op", "fire").b("ok", ok));
    }
    else if (op.op == "force")
    {
      g_tr->add(vf::Ev("Call").str("t", t).str("op", "force").i("s", op.arg(0)));
      sm->forceState(static_cast<S>(op.arg(0)));
      g_tr->add(vf::Ev("Ret").str("t", t).str("op", "force"));
    }
    else if (op.op == "read")
      g_tr->add(vf::Ev("Read").str("t", t).i("s", (int)sm->currentState()));
    else if (op.op == "isin")
      g_tr->add(vf::Ev("IsIn").str("t", t).i("s", op.arg(0)).b("r", sm->isInState(static_cast<S>(op.arg(0)))));
  }
};

static std::string jsonInts(const std::vector<int> &v)
{
  std::string s = "[";
  for (size_t i = 0; i < v.size(); ++i) s += (i ? "," : "") + std::to_string(v[i]);
  return s + "]";
}

template <bool WithCtx> static void body(const Case &c)
{
  vf::point("start");
  Mach<WithCtx> m;
  m.build(c.tb);
  std::vector<std::thread> th;
  for (size_t i = 0; i < c.prog.size(); ++i)
  {
    vf::nameNextChild(c.prog[i].name);
    th.emplace_back(
      [&m, &c, i]()
      {
        t_name = c.prog[i].name.c_str();
        for (auto &op : c.prog[i].ops)
        {
          vf::point("call");
          m.runOp(c.prog[i].name, op);
        }
      });
  }
  for (auto &t : th) t.join();
}

static std::string runOne(const Case &c, const vf::Options &opt, bool emitSched)
{
  auto tr = std::make_shared<vf::Trace>();
  g_tr = tr.get();
  const Table &t = c.tb;
  std::string rules = "[";
  for (size_t i = 0; i < t.rules.size(); ++i)
  {
    auto &r = t.rules[i];
    rules += (i ? "," : "") + jsonInts({r.from, r.ev, r.to, r.g, r.then, r.act});
  }
  rules += "]";
  tr->add(vf::Ev("Begin").i("init", t.init).raw("rules", rules).raw("enter", jsonInts(t.enter)).raw("exit", jsonInts(t.exit)).raw("fenter", jsonInts(t.fenter)).raw("fexit", jsonInts(t.fexit)).i("any", t.any).i("ctx", t.ctx));
  vf::Options o = opt;
  o.maxSteps = 20000;
  vf::reset(o);
  vf::spawn("main",
            [tr, &c]()
            {
              t_name = "main";
              if (c.tb.ctx)
                body<true>(c);
              else
                body<false>(c);
            });
  vf::Result r = vf::run();
  tr->add(xc::endEvent(r));
  std::string text = tr->text();
  if (emitSched) text += xc::schedLine(r);
  return text;
}

static std::vector<int> intList(const std::string &s, char sep = ',')
{
  std::vector<int> v;
  for (auto &x : vf::split(s, sep))
    if (!x.empty()) v.push_back(atoi(x.c_str()));
  return v;
}

static bool parseCase(const std::string &ln, Case &c, bool withSched)
{
  auto parts = vf::split(ln, '|');
  if (parts.size() < (withSched ? 3u : 2u)) return false;
  auto w = vf::words(parts[0]);
  if (w.empty()) return false;
  c.tb.ctx = atoi(w[0].c_str());
  for (size_t i = 1; i < w.size(); ++i)
  {
    auto eq = w[i].find('=');
    if (eq == std::string::npos) continue;
    std::string k = w[i].substr(0, eq), v = w[i].substr(eq + 1);
    if (k == "init") c.tb.init = atoi(v.c_str());
    else if (k == "any") c.tb.any = atoi(v.c_str());
    else if (k == "enter") c.tb.enter = intList(v);
    else if (k == "exit") c.tb.exit = intList(v);
    else if (k == "fenter") c.tb.fenter = intList(v);
    else if (k == "fexit") c.tb.fexit = intList(v);
    else if (k == "rules")
      for (auto &r : vf::split(v, ','))
      {
        auto f = intList(r, ':');
        if (f.size() == 6) c.tb.rules.push_back({f[0], f[1], f[2], f[3], f[4], f[5]});
      }
    else if (k == "re")
    {
      auto f = vf::split(v, ':');
      if (f.size() == 4)
      {
        c.tb.reKind = f[0];
        c.tb.reIdx = atoi(f[1].c_str());
        c.tb.reOp = f[2];
        c.tb.reArg = atoi(f[3].c_str());
      }
    }
  }
  c.prog = xc::parseProg(parts[1]);
  if (withSched) c.opt = xc::parseSched(parts[2]);
  return true;
}

int main(int argc, char **argv)
{
  if (argc < 3) return 2;
  std::string cmd = argv[1];
  if (cmd == "run" && argc >= 4)
  {
    std::vector<Case> cases;
    for (auto &ln : vf::readLines(argv[2]))
    {
      Case c;
      if (parseCase(ln, c, true)) cases.push_back(std::move(c));
    }
    int par = argc > 4 ? atoi(argv[4]) : 8;
    auto res = vf::runMany((int)cases.size(), par, 60.0, std::string(argv[3]) + ".d", argv[3], [&](int i) { return runOne(cases[i], cases[i].opt, false); });
    printf("executions=%d crashed=%d timedout=%d\n", res.executions, res.crashed, res.timedOut);
    return 0;
  }
  if (cmd == "dfs" && argc >= 6)
  {
    Case c;
    if (!parseCase(argv[2], c, false)) return 2;
    return xc::dfs([&](const vf::Options &o, bool s) { return runOne(c, o, s); }, atoi(argv[3]), atoi(argv[4]), argv[5], argc > 6 ? atoi(argv[6]) : 8);
  }
  return 2;
}
