// Extra X20 (beyond the listed properties): iora::core::Logger under the deterministic scheduler.
//   drv_s_logger run <cases.txt> <out.ndjson> [parallel]
//   drv_s_logger dfs "<case without schedule>" <bound> <maxExec> <out.ndjson> [parallel]
//   case:  <sink: 0 = file, 1 = console> | m=init:2:1,seth:1,go,idle ; p1=log:2,log:3,flush ; c=clrh,shutdown | random <seed> | replay ... | prefix ...
//   Thread m runs its operations; `go` starts every other thread and joins them; a final shutdown() is always appended.
//   ops: init:<level>:<async>  log:<level>  flush  shutdown  level:<level>  seth:<h>  clrh  go  idle
//   message id = 100 * (index of the thread in the program, from 1) + running number; the text logged is "M<id>".
// Observation: before every event a driver thread logs, the sinks (log file, captured std::cout) are scanned; every new line is
// a W{id,lv,s} event (s = "f" file / "c" console).  Only one registered thread runs at a time, so the file content at that moment
// is exact.  The external handler logs H{id,lv,h,by,w} on entry and HEnd{h,by} on exit (schedule points "h" before, "hmid" inside).
// Events: Begin{file} InitCall{t,lv,as} InitRet LogCall{t,id,lv} LogRet{t,id} W H HEnd FlushCall/Ret{t} ShutCall/Ret{t} LevelCall{t,lv}
//         LevelRet SetHCall{t,h} SetHRet ClrHCall ClrHRet Idle{parked} End{outcome}
#include "iora/core/logger.hpp"
#include "drv_xcore.hpp"

#include <fcntl.h>
#include <memory>
#include <sstream>
#include <unistd.h>

using iora::core::Logger;

struct Sinks
{
  std::string base, path;
  size_t foff = 0, coff = 0;
  std::string fbuf, cb;
  std::stringbuf cbuf;
};

struct Ctx
{
  std::shared_ptr<vf::Trace> tr = std::make_shared<vf::Trace>();
  Sinks s;
  bool file = false;
  int inits = 0;
  std::string worker; // name of the current writer thread ("" = none)
  bool randomPolicy = true;
};

static int levelOf(const std::string &s)
{
  static const char *n[] = {"TRACE", "DEBUG", "INFO", "WARN", "ERROR", "FATAL"};
  for (int i = 0; i < 6; ++i)
    if (s == n[i]) return i;
  return -1;
}

static void emitLines(Ctx &c, std::string &buf, const char *sink)
{
  size_t nl;
  while ((nl = buf.find('\n')) != std::string::npos)
  {
    std::string ln = buf.substr(0, nl);
    buf.erase(0, nl + 1);
    int id = -1, lv = -1;
    auto m = ln.rfind(" M");
    if (m != std::string::npos) id = atoi(ln.c_str() + m + 2);
    auto a = ln.find("] [");
    if (a != std::string::npos)
    {
      auto b = ln.find(']', a + 3);
      if (b != std::string::npos) lv = levelOf(ln.substr(a + 3, b - a - 3));
    }
    c.tr->add(vf::Ev("W").i("id", id).i("lv", lv).str("s", sink));
  }
}

static void observe(Ctx &c)
{
  if (c.file)
  {
    int fd = open(c.s.path.c_str(), O_RDONLY);
    if (fd >= 0)
    {
      char b[4096];
      ssize_t n;
      while ((n = pread(fd, b, sizeof b, (off_t)c.s.foff)) > 0)
      {
        c.s.fbuf.append(b, (size_t)n);
        c.s.foff += (size_t)n;
      }
      close(fd);
    }
    emitLines(c, c.s.fbuf, "f");
  }
  std::string all = c.s.cbuf.str();
  if (all.size() > c.s.coff)
  {
    c.s.cb.append(all, c.s.coff, std::string::npos);
    c.s.coff = all.size();
    emitLines(c, c.s.cb, "c");
  }
}

static void emit(Ctx &c, const vf::Ev &e)
{
  observe(c);
  c.tr->add(e);
}

static void runOps(Ctx &c, const std::vector<xc::ThreadProg> &prog, size_t self);

static void doOp(Ctx &c, const std::vector<xc::ThreadProg> &prog, size_t self, const xc::Op &op, int &seq)
{
  const std::string &t = prog[self].name;
  vf::point("call");
  if (op.op == "init")
  {
    emit(c, vf::Ev("InitCall").str("t", t).i("lv", op.arg(0, 2)).b("as", op.arg(1, 1) != 0));
    std::string wn = "wk" + std::to_string(++c.inits);
    vf::nameNextChild(wn);
    Logger::init((Logger::Level)op.arg(0, 2), c.file ? c.s.base : std::string(), op.arg(1, 1) != 0);
    if (vf::threadPhase(wn) != 2) c.worker = wn;
    vf::point("ret");
    emit(c, vf::Ev("InitRet").str("t", t));
  }
  else if (op.op == "log")
  {
    int id = (int)(self + 1) * 100 + (++seq);
    emit(c, vf::Ev("LogCall").str("t", t).i("id", id).i("lv", op.arg(0, 2)));
    Logger::log((Logger::Level)op.arg(0, 2), "M" + std::to_string(id));
    emit(c, vf::Ev("LogRet").str("t", t).i("id", id));
  }
  else if (op.op == "flush")
  {
    emit(c, vf::Ev("FlushCall").str("t", t));
    Logger::flush();
    vf::point("ret");
    emit(c, vf::Ev("FlushRet").str("t", t));
  }
  else if (op.op == "shutdown")
  {
    emit(c, vf::Ev("ShutCall").str("t", t));
    Logger::shutdown();
    c.worker.clear();
    vf::point("ret");
    emit(c, vf::Ev("ShutRet").str("t", t));
  }
  else if (op.op == "level")
  {
    emit(c, vf::Ev("LevelCall").str("t", t).i("lv", op.arg(0, 2)));
    Logger::setLevel((Logger::Level)op.arg(0, 2));
    emit(c, vf::Ev("LevelRet").str("t", t));
  }
  else if (op.op == "seth")
  {
    int h = op.arg(0, 1);
    emit(c, vf::Ev("SetHCall").str("t", t).i("h", h));
    Ctx *pc = &c;
    Logger::setExternalHandler(
      [pc, h](Logger::Level lv, const std::string &, const std::string &raw)
      {
        vf::point("h");
        std::string by = vf::selfName() ? vf::selfName() : "?";
        observe(*pc);
        pc->tr->add(vf::Ev("H").i("id", raw.size() > 1 ? atoi(raw.c_str() + 1) : -1).i("lv", (int)lv).i("h", h).str("by", by).b("w", by.rfind("wk", 0) == 0));
        vf::point("hmid");
        pc->tr->add(vf::Ev("HEnd").i("h", h).str("by", by));
      });
    vf::point("ret");
    emit(c, vf::Ev("SetHRet").str("t", t));
  }
  else if (op.op == "clrh")
  {
    emit(c, vf::Ev("ClrHCall").str("t", t));
    Logger::clearExternalHandler();
    vf::point("ret");
    emit(c, vf::Ev("ClrHRet").str("t", t));
  }
  else if (op.op == "idle")
  {
    // give the writer thread the chance to settle: an idle worker parks in its condition wait, a spinning one never does
    if (!c.randomPolicy) return;
    bool parked = c.worker.empty() || vf::threadPhase(c.worker) != 0;
    for (int i = 0; i < 400 && !parked; ++i)
    {
      vf::point("idle");
      parked = vf::threadPhase(c.worker) != 0;
    }
    emit(c, vf::Ev("Idle").b("parked", parked));
  }
  else if (op.op == "go")
  {
    std::vector<std::thread> th;
    for (size_t k = 0; k < prog.size(); ++k)
    {
      if (k == self) continue;
      vf::nameNextChild(prog[k].name);
      th.emplace_back([&c, &prog, k]() { runOps(c, prog, k); });
    }
    for (auto &x : th) x.join();
  }
}

static void runOps(Ctx &c, const std::vector<xc::ThreadProg> &prog, size_t self)
{
  int seq = 0;
  for (auto &op : prog[self].ops) doOp(c, prog, self, op, seq);
}

static std::string runOne(int sink, const std::vector<xc::ThreadProg> &prog, const vf::Options &opt, bool emitSchedule)
{
  auto c = std::make_shared<Ctx>();
  c->file = sink == 0;
  c->randomPolicy = opt.policy == vf::Policy::Random;
  char dir[64];
  snprintf(dir, sizeof dir, "/tmp/vf_x20_%d", (int)getpid());
  mkdir(dir, 0777);
  c->s.base = std::string(dir) + "/x20";
  std::streambuf *old = std::cout.rdbuf(&c->s.cbuf);
  c->tr->add(vf::Ev("Begin").b("file", c->file));
  vf::Options o = opt;
  o.maxSteps = 30000;
  vf::reset(o);
  size_t mi = 0;
  for (size_t k = 0; k < prog.size(); ++k)
    if (prog[k].name == "m") mi = k;
  vf::spawn("m",
            [c, &prog, mi]()
            {
              c->s.path = c->s.base + "." + Logger::currentDate() + ".log";
              runOps(*c, prog, mi);
              int seq = 0;
              xc::Op fin;
              fin.op = "shutdown";
              doOp(*c, prog, mi, fin, seq);
            });
  vf::Result r = vf::run();
  std::cout.rdbuf(old);
  c->tr->add(xc::endEvent(r));
  if (!c->s.path.empty()) unlink(c->s.path.c_str());
  rmdir(dir);
  std::string text = c->tr->text();
  if (emitSchedule) text += xc::schedLine(r);
  return text;
}

int main(int argc, char **argv)
{
  if (argc < 4) return 2;
  std::string cmd = argv[1];
  if (cmd == "run")
  {
    auto lines = vf::readLines(argv[2]);
    int par = argc > 4 ? atoi(argv[4]) : 8;
    struct Case
    {
      int sink;
      std::vector<xc::ThreadProg> prog;
      vf::Options opt;
    };
    std::vector<Case> cases;
    for (auto &ln : lines)
    {
      auto parts = vf::split(ln, '|');
      if (parts.size() < 3) continue;
      Case c;
      c.sink = atoi(parts[0].c_str());
      c.prog = xc::parseProg(parts[1]);
      c.opt = xc::parseSched(parts[2]);
      cases.push_back(std::move(c));
    }
    auto res = vf::runMany((int)cases.size(), par, 60.0, std::string(argv[3]) + ".d", argv[3],
                           [&](int i) { return runOne(cases[i].sink, cases[i].prog, cases[i].opt, false); });
    printf("executions=%d crashed=%d timedout=%d\n", res.executions, res.crashed, res.timedOut);
    return 0;
  }
  if (cmd == "dfs" && argc >= 6)
  {
    auto parts = vf::split(argv[2], '|');
    if (parts.size() < 2) return 2;
    int sink = atoi(parts[0].c_str());
    auto prog = xc::parseProg(parts[1]);
    return xc::dfs([&](const vf::Options &o, bool es) { return runOne(sink, prog, o, es); }, atoi(argv[3]), atoi(argv[4]), argv[5], argc > 6 ? atoi(argv[6]) : 8);
  }
  return 2;
}
