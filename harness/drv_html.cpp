// X14 conformance driver: iora::parsers::escapeHtml / urlDecode / formDecode / urlEncode / formEncode / parseFormBody
// (parsers/html_escape.hpp) and the iora::web::htmx helpers (web/htmx.hpp).
//
//   drv_html run <cases> <out.ndjson> <batch> <parallel>          forked workers (parsers_run.hpp)
// case lines (written by checks/X14.py from the terminal states of spec/extra/HtmlEscape.tla and Htmx.tla):
//   ESC|UDEC|FDEC|UENC|FENC|FORM <hex|->
//   SET <redirect|pushurl|retarget|reswap|trigger|refresh> <hex|->
//   INSP <header name> <present 0|1> <key spelling 0|1> <hex|->
// events: see spec/extra/HtmlTrace.tla.  Inputs are handed over as string_views on exact-size heap blocks (ASan).
#include "iora/parsers/html_escape.hpp"
#include "iora/web/htmx.hpp"
#include "parsers_run.hpp"
#include "vf/exec.hpp"
#include "vf/trace.hpp"
#include <algorithm>
#include <cstring>
#include <memory>

using iora::network::HttpServer;
namespace hx = iora::web::htmx;

static std::string unhex(const std::string &h)
{
  std::string o;
  if (h == "-") return o;
  auto v = [](char c) { return c <= '9' ? c - '0' : (c | 32) - 'a' + 10; };
  for (size_t i = 0; i + 1 < h.size(); i += 2) o += (char)(v(h[i]) * 16 + v(h[i + 1]));
  return o;
}
static std::string arr(std::string_view s)
{
  std::string o = "[";
  for (size_t i = 0; i < s.size(); ++i)
  {
    if (i) o += ",";
    o += std::to_string((unsigned char)s[i]);
  }
  return o + "]";
}
static std::string lower(std::string s)
{
  for (auto &c : s)
    if (c >= 'A' && c <= 'Z') c = (char)(c + 32);
  return s;
}

static std::string runCase(const std::string &line)
{
  auto w = vf::words(line);
  if (w.empty()) return "";
  const std::string &op = w[0];
  std::string in = unhex(w.back());
  std::unique_ptr<char[]> blk(new char[in.size()]);
  if (!in.empty()) memcpy(blk.get(), in.data(), in.size());
  std::string_view sv(blk.get(), in.size());
  namespace p = iora::parsers;
  try
  {
    if (op == "ESC")
    {
      std::string out = p::escapeHtml(sv);
      std::string out2 = p::escapeHtml(out);
      return vf::Ev("Esc").raw("in", arr(in)).raw("out", arr(out)).raw("out2", arr(out2)).done() + "\n";
    }
    if (op == "UDEC" || op == "FDEC")
    {
      bool form = op == "FDEC";
      std::string out = form ? p::formDecode(sv) : p::urlDecode(sv);
      return vf::Ev("Dec").b("form", form).raw("in", arr(in)).raw("out", arr(out)).done() + "\n";
    }
    if (op == "UENC" || op == "FENC")
    {
      bool form = op == "FENC";
      std::string out = form ? p::formEncode(sv) : p::urlEncode(sv);
      std::string back = form ? p::formDecode(out) : p::urlDecode(out);
      return vf::Ev("Enc").b("form", form).raw("in", arr(in)).raw("out", arr(out)).raw("back", arr(back)).done() + "\n";
    }
    if (op == "FORM")
    {
      auto m = p::parseFormBody(sv);
      std::vector<std::pair<std::string, std::string>> v(m.begin(), m.end());
      std::sort(v.begin(), v.end());
      std::string ps = "[";
      for (size_t i = 0; i < v.size(); ++i)
      {
        if (i) ps += ",";
        ps += "[" + arr(v[i].first) + "," + arr(v[i].second) + "]";
      }
      ps += "]";
      return vf::Ev("Form").raw("in", arr(in)).raw("pairs", ps).done() + "\n";
    }
    if (op == "SET" && w.size() >= 3)
    {
      const std::string &s = w[1];
      HttpServer::Response res;
      bool threw = false;
      std::string exc = "none";
      try
      {
        if (s == "redirect") hx::setRedirect(res, sv);
        else if (s == "pushurl") hx::setPushUrl(res, sv);
        else if (s == "retarget") hx::setRetarget(res, sv);
        else if (s == "reswap") hx::setReswap(res, sv);
        else if (s == "trigger") hx::setTrigger(res, sv);
        else hx::setRefresh(res);
      }
      catch (const std::invalid_argument &)
      {
        threw = true;
        exc = "invalid_argument";
      }
      catch (...)
      {
        threw = true;
        exc = "other";
      }
      std::string hs = "[";
      bool first = true;
      for (auto &kv : res.headers)
      {
        if (!first) hs += ",";
        first = false;
        hs += "{\"k\":\"" + vf::Ev::esc(kv.first) + "\",\"v\":" + arr(kv.second) + "}";
      }
      hs += "]";
      return vf::Ev("Set").str("setter", s).raw("val", arr(in)).b("threw", threw).str("exc", exc).raw("hdrs", hs).done() + "\n";
    }
    if (op == "INSP" && w.size() >= 5)
    {
      std::string name = w[1];
      bool present = w[2] == "1";
      int kc = atoi(w[3].c_str());
      HttpServer::Request req;
      if (present) req.headers[kc ? lower(name) : name] = in;
      auto t = hx::trigger(req), tn = hx::triggerName(req), tg = hx::target(req);
      return vf::Ev("Insp").str("name", name).b("present", present).i("kc", kc).raw("val", arr(in)).b("htmx", hx::isHtmx(req))
               .b("boost", hx::isBoost(req)).b("trig", t.has_value()).raw("trigv", arr(t ? *t : std::string()))
               .b("tname", tn.has_value()).raw("tnamev", arr(tn ? *tn : std::string())).b("target", tg.has_value())
               .raw("targetv", arr(tg ? *tg : std::string())).done() + "\n";
    }
  }
  catch (...)
  {
    // every function under test is documented as total / non-throwing except the setters (handled above)
    return vf::Ev("Crashed").i("k", -1).done() + "\n";
  }
  return "";
}

int main(int argc, char **argv)
{
  if (argc >= 6 && std::string(argv[1]) == "run")
  {
    auto lines = vf::readLines(argv[2]);
    int batch = atoi(argv[4]), par = atoi(argv[5]);
    if (batch <= 0) batch = 1;
    auto r = vfp::runResilient((int)lines.size(), batch, par, 30.0, argv[3], [&](int k) { return runCase(lines[k]); });
    printf("cases=%d crashed=%d hung=%d workers=%d\n", r.cases, r.crashed, r.hung, r.workers);
    return 0;
  }
  fprintf(stderr, "usage: drv_html run <cases> <out> <batch> <parallel>\n");
  return 2;
}
