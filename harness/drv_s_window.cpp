// Extra: iora::core::SlidingWindowCounter under the scheduler with virtual time; several callers + a ticker thread.
//   drv_s_window run <cases.txt> <out.ndjson>      case: <max> <windowSec> | a=A,A,S,A;b=A,A | random <seed>   (A = tryAcquire, S = sleep 1 s)
// Events: Begin{max,window} Acquire{t,ok,t0,t1} End
#include "iora/core/rate_limiter.hpp"
#include "vf/exec.hpp"
#include "vf/sched.hpp"
#include "vf/trace.hpp"
#include <memory>
#include <thread>
struct TP { std::string name; std::vector<std::string> ops; };
static std::string runOne(int mx, int win, const std::vector<TP> &prog, const vf::Options &opt)
{
  auto tr = std::make_shared<vf::Trace>();
  tr->add(vf::Ev("Begin").i("max", mx).i("window", win));
  vf::Options o = opt; o.maxSteps = 20000;
  vf::reset(o);
  vf::spawn("main", [tr, mx, win, &prog]() {
    vf::point("start");
    auto c = std::make_shared<iora::core::SlidingWindowCounter>((std::size_t)mx, std::chrono::seconds(win));
    std::vector<std::thread> th;
    for (auto &tp : prog) {
      vf::nameNextChild(tp.name);
      th.emplace_back([tr, c, &tp]() {
        for (auto &op : tp.ops) {
          vf::point("call");
          if (op == "S") { std::this_thread::sleep_for(std::chrono::seconds(1)); continue; }
          long long t0 = vf::virtualAdvanceNs() / 1000000000LL;
          bool ok = c->tryAcquire();
          long long t1 = vf::virtualAdvanceNs() / 1000000000LL;
          tr->add(vf::Ev("Acquire").str("t", tp.name).b("ok", ok).i("t0", t0).i("t1", t1));
        }
      });
    }
    for (auto &t : th) t.join();
  });
  vf::run();
  tr->add(vf::Ev("End"));
  return tr->text();
}
int main(int argc, char **argv)
{
  if (argc < 4 || std::string(argv[1]) != "run") return 2;
  auto lines = vf::readLines(argv[2]);
  struct Case { int mx, win; std::vector<TP> prog; vf::Options opt; };
  std::vector<Case> cases;
  for (auto &ln : lines) {
    auto parts = vf::split(ln, '|'); if (parts.size() < 3) continue;
    Case c; auto w = vf::words(parts[0]); c.mx = atoi(w[0].c_str()); c.win = atoi(w[1].c_str());
    std::string p; for (auto &x : vf::words(parts[1])) p += x;
    for (auto &pp : vf::split(p, ';')) { auto eq = pp.find('='); if (eq == std::string::npos) continue; TP tp; tp.name = pp.substr(0, eq); for (auto &x : vf::split(pp.substr(eq + 1), ',')) if (!x.empty()) tp.ops.push_back(x); c.prog.push_back(tp); }
    auto pw = vf::words(parts[2]); c.opt.policy = vf::Policy::Random; c.opt.seed = pw.size() > 1 ? strtoull(pw[1].c_str(), nullptr, 10) : 1;
    cases.push_back(std::move(c));
  }
  auto res = vf::runMany((int)cases.size(), 16, 30.0, std::string(argv[3]) + ".d", argv[3], [&](int i) { return runOne(cases[i].mx, cases[i].win, cases[i].prog, cases[i].opt); });
  printf("executions=%d crashed=%d timedout=%d\n", res.executions, res.crashed, res.timedOut);
  return 0;
}
