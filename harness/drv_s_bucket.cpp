// Extra X26: iora::core::TokenBucket / RateLimiterMap under the scheduler with virtual time (whole seconds, whole tokens).
//   drv_s_bucket run <cases.txt> <out.ndjson>
//   case: <rate> <burst> | a=C1x,S,C2y,Q,W2;b=C1x | random <seed>
//     C<n><key> = tryConsume(key, n)   R<key> = removeKey(key), K<d> = cleanup(d s) (map mode only)   S = sleep 1 s   O / G = open / wait for the gate (map mode)   Q = availableTokens()   W<n> = timeUntilAvailable(n)
//   one program  -> mode "bucket": ONE TokenBucket object driven directly (keys ignored; Q and W allowed)
//   more programs -> mode "map":   RateLimiterMap<std::string> shared by the callers (Q / W skipped)
// Events: Begin{rate,burst,threads} Consume{t,k,n,ok,t0,t1} Remove{t,k,t0,t1} Cleanup{t,d,t0,t1} Avail{v1000,t0} Wait{n,ms,t0} End
#include "iora/core/rate_limiter.hpp"
#include "vf/exec.hpp"
#include "vf/sched.hpp"
#include "vf/trace.hpp"
#include <cmath>
#include <condition_variable>
#include <memory>
#include <mutex>
#include <thread>
struct TP { std::string name; std::vector<std::string> ops; };
// The logical keys x / y / z are realised by strings that hash to shard 0 of the map's 64 shards (Hash{}(key) & 63, as
// ConcurrentHashMap::shardFor computes it): cleanup()'s collect pass reads shard 0 first, so the window up to its erase pass
// spans the 63 other shard locks and a random schedule has a real chance to place another caller's draw inside it.
static std::string realKey(char k)
{
  for (int i = 0; i < 100000; ++i) { std::string c = std::string(1, k) + std::to_string(i); if ((std::hash<std::string>{}(c) & 63) == 0) return c; }
  return std::string(1, k);
}
static long long vsec() { return vf::virtualAdvanceNs() / 1000000000LL; }
static std::string runOne(int rate, int burst, const std::vector<TP> &prog, const vf::Options &opt)
{
  auto tr = std::make_shared<vf::Trace>();
  tr->add(vf::Ev("Begin").i("rate", rate).i("burst", burst).i("threads", (long long)prog.size()));
  vf::Options o = opt; o.maxSteps = 20000;
  vf::reset(o);
  vf::spawn("main", [tr, rate, burst, &prog]() {
    vf::point("start");
    if (prog.size() == 1) {
      iora::core::TokenBucket b((double)rate, (double)burst);
      for (auto &op : prog[0].ops) {
        if (op == "S") { std::this_thread::sleep_for(std::chrono::seconds(1)); continue; }
        long long t0 = vsec();
        if (op[0] == 'C') { int n = op[1] - '0'; bool ok = b.tryConsume((double)n); tr->add(vf::Ev("Consume").str("t", "a").str("k", "x").i("n", n).b("ok", ok).i("t0", t0).i("t1", vsec())); }
        else if (op[0] == 'Q') { double v = b.availableTokens(); tr->add(vf::Ev("Avail").i("v1000", (long long)std::llround(v * 1000.0)).i("t0", t0)); }
        else if (op[0] == 'W') { int n = op[1] - '0'; auto ms = b.timeUntilAvailable((double)n); tr->add(vf::Ev("Wait").i("n", n).i("ms", (long long)ms.count()).i("t0", t0)); }
      }
      return;
    }
    auto m = std::make_shared<iora::core::RateLimiterMap<std::string>>((double)rate, (double)burst);
    struct Gate { std::mutex m; std::condition_variable cv; bool open = false; };
    auto gate = std::make_shared<Gate>();
    std::vector<std::thread> th;
    for (auto &tp : prog) {
      vf::nameNextChild(tp.name);
      th.emplace_back([tr, m, gate, &tp]() {
        for (auto &op : tp.ops) {
          vf::point("call");
          if (op == "S") { std::this_thread::sleep_for(std::chrono::seconds(1)); continue; }
          if (op == "O") { { std::lock_guard<std::mutex> lk(gate->m); gate->open = true; } gate->cv.notify_all(); continue; }
          if (op == "G") { std::unique_lock<std::mutex> lk(gate->m); gate->cv.wait(lk, [&] { return gate->open; }); continue; }
          if (op[0] == 'R' && op.size() >= 2) { std::string key(1, op[1]); long long t0 = vsec(); m->removeKey(realKey(op[1])); tr->add(vf::Ev("Remove").str("t", tp.name).str("k", key).i("t0", t0).i("t1", vsec())); continue; }
          if (op[0] == 'K' && op.size() >= 2) { int d = op[1] - '0'; long long t0 = vsec(); m->cleanup(std::chrono::seconds(d)); tr->add(vf::Ev("Cleanup").str("t", tp.name).i("d", d).i("t0", t0).i("t1", vsec())); continue; }
          if (op[0] != 'C' || op.size() < 3) continue;
          int n = op[1] - '0'; std::string key(1, op[2]);
          long long t0 = vsec();
          bool ok = m->tryConsume(realKey(op[2]), (double)n);
          long long t1 = vsec();
          tr->add(vf::Ev("Consume").str("t", tp.name).str("k", key).i("n", n).b("ok", ok).i("t0", t0).i("t1", t1));
        }
      });
    }
    for (auto &t : th) t.join();
  });
  vf::run();
  tr->add(vf::Ev("End"));
  return tr->text();
}
int main(int argc, char **argv)
{
  if (argc < 4 || std::string(argv[1]) != "run") return 2;
  auto lines = vf::readLines(argv[2]);
  struct Case { int rate, burst; std::vector<TP> prog; vf::Options opt; };
  std::vector<Case> cases;
  for (auto &ln : lines) {
    auto parts = vf::split(ln, '|'); if (parts.size() < 3) continue;
    Case c; auto w = vf::words(parts[0]); c.rate = atoi(w[0].c_str()); c.burst = atoi(w[1].c_str());
    std::string p; for (auto &x : vf::words(parts[1])) p += x;
    for (auto &pp : vf::split(p, ';')) { auto eq = pp.find('='); if (eq == std::string::npos) continue; TP tp; tp.name = pp.substr(0, eq); for (auto &x : vf::split(pp.substr(eq + 1), ',')) if (!x.empty()) tp.ops.push_back(x); c.prog.push_back(tp); }
    auto pw = vf::words(parts[2]); c.opt.policy = vf::Policy::Random; c.opt.seed = pw.size() > 1 ? strtoull(pw[1].c_str(), nullptr, 10) : 1;
    cases.push_back(std::move(c));
  }
  auto res = vf::runMany((int)cases.size(), 16, 30.0, std::string(argv[3]) + ".d", argv[3], [&](int i) { return runOne(cases[i].rate, cases[i].burst, cases[i].prog, cases[i].opt); });
  printf("executions=%d crashed=%d timedout=%d\n", res.executions, res.crashed, res.timedOut);
  return 0;
}
