// C01 conformance driver: one TCP or TLS session of the real TcpEngine (through iora::network::Transport) against a
// raw-socket peer (plain) or an OpenSSL peer over memory BIOs (TLS; the driver shuttles the ciphertext, so it can cut it
// anywhere).  Records the events of spec/transport/StreamTrace.tla.
//
//   drv_tcpstream run <cases.txt> <out.ndjson> <parallel>
//
// case line:  key=value ... ; STEP ; STEP ; ...
//   common keys: mode=seq|conc tls=0|1 et=0|1 batch=0|1 role=srv|cli (engine accepts | engine connects) wq=<maxWriteQueue>
//   mode=seq  (replay of a TLC behaviour of TcpStream.tla; sequential, every step waits for quiescence)
//     keys: scale=<bytes per model unit> pcut=<bytes: the TLS/plain peer writes in pieces of this size, 0 = whole>
//     SEND <thread> <n>     Transport::send / sendAsync of a payload of n units (suffix b: n bytes) on thread <thread>
//     DRAIN <n>             the fake kernel accepts n more units (bytes with suffix b) on the session socket
//     ERR                   the next write on the session socket fails with ECONNRESET
//     HSDONE                the peer completes the TLS handshake
//     PWRITE <n>            the peer writes a payload of n units      RCUT <k>   reads on the session socket return <= k units
//     PCLOSE                the peer closes                            CLOSE      Transport::close(session)
//     PWRITEG <n>           PWRITE, and the data callback that delivers it PARKS the I/O thread (gate); while it is parked
//                           SEND steps are issued by worker threads (their send() returns, the command stays queued),
//     CBSEND <n>            the parked callback itself calls send() on the session (a send from the I/O thread),
//     RELEASE               the callback returns.   gateconn=1: the accept / connect callback parks right at session set-up.
//     PARKEV                the I/O thread will park at its next read(2) of the engine's eventfd (the wake-up counter): the
//                           SEND that wakes it up parks it there, further SENDs land in the window between the wake-up
//                           and the drain; RELEASE lets it go on.  (read(2) on the eventfd is interposed.)
//     AUTODRAIN <n>         fake kernel: right after the next write that is cut short, n more units of room appear (the peer's
//                           ACKs free send-buffer space between two doSend() calls of one process() pass)
//     keys: chunk=<ioReadChunk bytes, 0 = default> rec=<plaintext bytes per TLS record written by the peer, default 16384>
//           fake=0 (no fake kernel: the real socket with sndbuf=/rcvbuf= decides; used with ~2 MiB payloads)
//   mode=conc (stress: the accepted order of concurrent sends is not observable; the oracle demands the observable part)
//     keys: threads= sends= (per thread) maxlen= (bytes) sndbuf= rcvbuf= (socket buffers, 0 = default) cutpm= (per mille of
//           write calls cut short) rcutmax= (reads capped at a random size up to this, 0 = off) pwrites= (payloads written
//           by the peer) seed=
//
// Quiescence is OBSERVED, never provoked: the driver does not send commands of its own through the engine (a command
// would wake the loop and hide a lost wake-up).  epoll_wait on the engine's epoll descriptor is interposed: the I/O
// thread is idle when it has been inside epoll_wait for a moment without returning an event; a step is over after two
// further loop rounds without I/O attempts, or when it is idle, or when it polls a full (fake) socket.  All waits are
// bounded; when nothing moves any more although something is outstanding, finish() logs a stall Note and End - the trace
// specification rejects an End with accepted bytes missing on an open session.
// Fault injection = definitions of send/recv/write/read/epoll_ctl/epoll_wait/eventfd/accept4/connect in this executable (they win over
// libc's for the engine's inline code and for libcrypto's socket BIO).  The "fake kernel" of seq mode: a write on the
// session socket takes min(room, n) bytes (passed on to the real socket) and answers EAGAIN when room = 0; DRAIN adds
// room and - as the real kernel does when a full socket becomes writable - wakes epoll (EPOLL_CTL_MOD with the engine's
// own current event mask).  Room applies once the session carries application data (plain: at once; TLS: from the
// onConnect callback, i.e. when the engine's handshake is complete), so handshake records always pass.
#include "iora/network/transport.hpp"
#include "iora/network/transport_impl.hpp"
#include "vf/exec.hpp"
#include "vf/trace.hpp"

#include <dlfcn.h>
#include <openssl/bio.h>
#include <openssl/ec.h>
#include <openssl/err.h>
#include <openssl/evp.h>
#include <openssl/pem.h>
#include <openssl/ssl.h>
#include <openssl/x509.h>
#include <poll.h>
#include <random>
#include <sys/epoll.h>

using namespace iora::network;

// ------------------------------------------------------------------------------------------------ shared state
static vf::Trace g_trace;
static std::atomic<bool> g_logging{false};

struct Spin
{
  std::atomic_flag f = ATOMIC_FLAG_INIT;
  void lock()
  {
    while (f.test_and_set(std::memory_order_acquire))
    {
    }
  }
  void unlock() { f.clear(std::memory_order_release); }
};

struct FakeKernel
{
  std::atomic<int> sessFd{-1};
  Spin lk;                      // room / lastEagain / errOnce
  std::atomic<bool> limited{false};
  long room = 0;
  bool lastEagain = false;
  bool errOnce = false;
  long autoDrain = 0;           // room that appears right after the next short write
  std::atomic<long> wcalls{0}, wbytes{0};
  std::atomic<long> rcalls{0}, rEagain{0}, rbytes{0};
  std::atomic<long> rcut{0};    // bytes per read, 0 = unlimited
  // conc mode: random short writes / reads (only the I/O thread draws from these)
  std::atomic<int> cutPerMille{0};
  std::atomic<long> rcutMax{0};
  std::mt19937_64 rng{1};
  // the I/O loop as seen at epoll_wait (engine's epoll descriptor only)
  std::atomic<int> epfdA{-1};
  std::atomic<bool> inWait{false};
  std::atomic<int> lastRet{1};
  std::atomic<long> waitEnter{0}, wakes{0};
  std::atomic<double> lastActive{0.0};
  // the engine's eventfd and the park at its read
  std::atomic<int> evFd{-1};
  std::atomic<bool> parkEvArmed{false};
  // epoll bookkeeping of the session fd
  Spin elk;
  int epfd = -1;
  epoll_event ev{};
  bool haveEv = false;
};
static FakeKernel K;
static std::atomic<int> g_len[1024];   // engine payload idx -> length
static std::atomic<int> g_plen[1024];  // peer payload idx -> length

static inline std::uint8_t pat(int idx, long off)
{
  if (off == 0) return (std::uint8_t)idx;
  return (std::uint8_t)(idx * 167 + off * 31 + (off >> 8) * 7 + (off >> 16) * 3 + 5);
}
static void genPayload(int idx, long n, std::vector<std::uint8_t> &b)
{
  b.resize((size_t)n);
  for (long i = 0; i < n; ++i) b[(size_t)i] = pat(idx, i);
}

// decodes a byte stream made of payloads back into ranges (idx, from, to)
struct Decoder
{
  const char *evName, *badName, *idxKey;
  std::atomic<int> *lens;
  int cur = 0;
  long off = 0;
  bool garbled = false;
  std::atomic<long> total{0};
  Decoder(const char *e, const char *b, const char *k, std::atomic<int> *l) : evName(e), badName(b), idxKey(k), lens(l) {}
  void emit(int idx, long from, long to)
  {
    if (to > from && g_logging.load()) g_trace.add(vf::Ev(evName).i(idxKey, idx).i("from", from).i("to", to));
  }
  void feed(const std::uint8_t *p, size_t n)
  {
    if (garbled) return;
    long from = off;
    for (size_t i = 0; i < n; ++i)
    {
      if (cur == 0)
      {
        int idx = p[i];
        if (idx == 0 || lens[idx].load() <= 0)
        {
          bad(total.load() + (long)i, idx, 0);
          return;
        }
        cur = idx;
        off = 0;
        from = 0;
      }
      else if (p[i] != pat(cur, off))
      {
        emit(cur, from, off);
        bad(total.load() + (long)i, cur, off);
        return;
      }
      ++off;
      if (off == lens[cur].load())
      {
        emit(cur, from, off);
        cur = 0;
        off = 0;
        from = 0;
      }
    }
    if (cur) emit(cur, from, off);
    total += (long)n;
  }
  void bad(long at, int idx, long o)
  {
    garbled = true;
    if (g_logging.load()) g_trace.add(vf::Ev(badName).i("at", at).i(idxKey, idx).i("off", o));
  }
};

// ------------------------------------------------------------------------------------------------ interposition
typedef ssize_t (*send_t)(int, const void *, size_t, int);
typedef ssize_t (*recv_t)(int, void *, size_t, int);
typedef ssize_t (*write_t)(int, const void *, size_t);
typedef ssize_t (*read_t)(int, void *, size_t);
typedef int (*epctl_t)(int, int, int, struct epoll_event *);
typedef int (*epwait_t)(int, struct epoll_event *, int, int);
typedef int (*evfd_fn_t)(unsigned int, int);
typedef int (*accept4_t)(int, struct sockaddr *, socklen_t *, int);
typedef int (*connect_t)(int, const struct sockaddr *, socklen_t);
#define REAL(type, name)                                \
  static type real_##name()                             \
  {                                                     \
    static type f = (type)dlsym(RTLD_NEXT, #name);      \
    return f;                                           \
  }
REAL(send_t, send)
REAL(recv_t, recv)
REAL(write_t, write)
REAL(read_t, read)
REAL(epctl_t, epoll_ctl)
REAL(epwait_t, epoll_wait)
REAL(evfd_fn_t, eventfd)
REAL(accept4_t, accept4)
REAL(connect_t, connect)

static void (*g_parkAtEventfd)() = nullptr;

template <class F> static ssize_t fakeWrite(int fd, size_t n, F realCall)
{
  if (!K.limited.load())
  {
    int cp = K.cutPerMille.load();
    if (cp > 0 && n > 1 && (int)(K.rng() % 1000) < cp) n = 1 + (size_t)(K.rng() % (n - 1));
    ssize_t r = realCall(n);
    K.wcalls++;
    if (r > 0) K.wbytes += r;
    return r;
  }
  K.lk.lock();
  if (K.errOnce)
  {
    K.errOnce = false;
    K.lastEagain = false;
    K.lk.unlock();
    K.wcalls++;
    errno = ECONNRESET;
    return -1;
  }
  if (K.room <= 0)
  {
    K.lastEagain = true;
    K.lk.unlock();
    K.wcalls++;
    usleep(120); // the real socket stays writable, so an engine that re-arms EPOLLOUT polls: damp the spin
    errno = EAGAIN;
    return -1;
  }
  size_t k = (size_t)std::min<long>((long)n, K.room);
  K.lk.unlock();
  ssize_t r = realCall(k);
  int e = errno;
  K.lk.lock();
  if (r > 0) K.room -= r;
  if (r > 0 && (size_t)r < n && K.autoDrain > 0)
  {
    K.room += K.autoDrain;
    K.autoDrain = 0;
  }
  K.lastEagain = (r < 0 && (e == EAGAIN || e == EWOULDBLOCK));
  K.lk.unlock();
  K.wcalls++;
  if (r > 0) K.wbytes += r;
  errno = e;
  return r;
}
template <class F> static ssize_t fakeRead(int fd, size_t n, F realCall)
{
  long c = K.rcut.load();
  long rm = K.rcutMax.load();
  if (c > 0 && (long)n > c) n = (size_t)c;
  if (rm > 0 && n > 1) n = std::min<size_t>(n, 1 + (size_t)(K.rng() % (unsigned long)rm));
  ssize_t r = realCall(n);
  int e = errno;
  K.rcalls++;
  if (r > 0) K.rbytes += r;
  if (r < 0 && (e == EAGAIN || e == EWOULDBLOCK)) K.rEagain++;
  errno = e;
  return r;
}

extern "C" ssize_t send(int fd, const void *b, size_t n, int fl)
{
  if (fd != K.sessFd.load()) return real_send()(fd, b, n, fl);
  return fakeWrite(fd, n, [&](size_t k) { return real_send()(fd, b, k, fl); });
}
extern "C" ssize_t write(int fd, const void *b, size_t n)
{
  if (fd != K.sessFd.load()) return real_write()(fd, b, n);
  return fakeWrite(fd, n, [&](size_t k) { return real_write()(fd, b, k); });
}
extern "C" ssize_t recv(int fd, void *b, size_t n, int fl)
{
  if (fd != K.sessFd.load()) return real_recv()(fd, b, n, fl);
  return fakeRead(fd, n, [&](size_t k) { return real_recv()(fd, b, k, fl); });
}
extern "C" ssize_t read(int fd, void *b, size_t n)
{
  if (fd >= 0 && fd == K.evFd.load() && K.parkEvArmed.exchange(false) && g_parkAtEventfd) g_parkAtEventfd();
  if (fd != K.sessFd.load()) return real_read()(fd, b, n);
  return fakeRead(fd, n, [&](size_t k) { return real_read()(fd, b, k); });
}
// eventfds created in this process and the epoll descriptor each was added to (the engine's is the one that shares the
// epoll descriptor with the session socket; the TimerService has its own pair)
static std::atomic<int> g_evfds[16];
static std::atomic<int> g_evEp[16];
static std::atomic<int> g_nev{0};
extern "C" int eventfd(unsigned int init, int flags)
{
  int fd = real_eventfd()(init, flags);
  int i = g_nev.load();
  if (fd >= 0 && i < 16)
  {
    g_evfds[i] = fd;
    g_evEp[i] = -1;
    g_nev = i + 1;
  }
  return fd;
}
extern "C" int epoll_wait(int epfd, struct epoll_event *evs, int maxev, int timeout)
{
  if (epfd != K.epfdA.load()) return real_epoll_wait()(epfd, evs, maxev, timeout);
  if (K.lastRet.load() > 0) K.lastActive = vf::nowSec(); // the handlers of the previous round are done
  K.waitEnter++;
  K.inWait = true;
  int r = real_epoll_wait()(epfd, evs, maxev, timeout);
  K.inWait = false;
  K.lastRet = r;
  if (r > 0)
  {
    K.wakes++;
    K.lastActive = vf::nowSec();
  }
  return r;
}
extern "C" int epoll_ctl(int epfd, int op, int fd, struct epoll_event *ev)
{
  if (op == EPOLL_CTL_ADD)
    for (int i = 0, n = g_nev.load(); i < n; ++i)
      if (g_evfds[i].load() == fd) g_evEp[i] = epfd;
  if (fd != K.sessFd.load()) return real_epoll_ctl()(epfd, op, fd, ev);
  K.elk.lock();
  int r = real_epoll_ctl()(epfd, op, fd, ev);
  if (r == 0 && ev && (op == EPOLL_CTL_ADD || op == EPOLL_CTL_MOD))
  {
    if (K.evFd.load() < 0)
      for (int i = 0, n = g_nev.load(); i < n; ++i)
        if (g_evEp[i].load() == epfd) K.evFd = g_evfds[i].load();
    K.epfd = epfd;
    K.epfdA = epfd;
    K.ev = *ev;
    K.haveEv = true;
  }
  if (op == EPOLL_CTL_DEL) K.haveEv = false;
  K.elk.unlock();
  return r;
}
// the engine's session socket: the fd it accepts / connects (the driver's own sockets use real_connect directly)
extern "C" int accept4(int fd, struct sockaddr *a, socklen_t *l, int fl)
{
  int r = real_accept4()(fd, a, l, fl);
  if (r >= 0 && K.sessFd.load() < 0) K.sessFd = r;
  return r;
}
extern "C" int connect(int fd, const struct sockaddr *a, socklen_t l)
{
  if (a && a->sa_family == AF_INET && K.sessFd.load() < 0) K.sessFd = fd;
  return real_connect()(fd, a, l);
}

// what the real kernel does when a full socket becomes writable again: wake epoll for the fd
static void wakeEpollOut()
{
  K.elk.lock();
  if (K.haveEv && (K.ev.events & EPOLLOUT))
  {
    epoll_event e = K.ev;
    real_epoll_ctl()(K.epfd, EPOLL_CTL_MOD, K.sessFd.load(), &e);
  }
  K.elk.unlock();
}

// ------------------------------------------------------------------------------------------------ certificate
static bool makeCert(const std::string &certPath, const std::string &keyPath)
{
  EVP_PKEY *pk = EVP_EC_gen("P-256");
  if (!pk) return false;
  X509 *x = X509_new();
  ASN1_INTEGER_set(X509_get_serialNumber(x), 1);
  X509_gmtime_adj(X509_getm_notBefore(x), -3600);
  X509_gmtime_adj(X509_getm_notAfter(x), 3600L * 24 * 3650);
  X509_set_pubkey(x, pk);
  X509_NAME *nm = X509_get_subject_name(x);
  X509_NAME_add_entry_by_txt(nm, "CN", MBSTRING_ASC, (const unsigned char *)"localhost", -1, -1, 0);
  X509_set_issuer_name(x, nm);
  bool ok = X509_sign(x, pk, EVP_sha256()) > 0;
  FILE *f = fopen(certPath.c_str(), "w");
  ok = ok && f && PEM_write_X509(f, x);
  if (f) fclose(f);
  f = fopen(keyPath.c_str(), "w");
  ok = ok && f && PEM_write_PrivateKey(f, pk, nullptr, nullptr, 0, nullptr, nullptr);
  if (f) fclose(f);
  X509_free(x);
  EVP_PKEY_free(pk);
  return ok;
}

// ------------------------------------------------------------------------------------------------ one execution
struct Params
{
  std::string mode = "seq", role = "srv";
  int tls = 0, et = 1, batch = 0;
  long wq = 1024, scale = 1, pcut = 0;
  int threads = 2, sends = 10, pwrites = 0, cutpm = 0;
  long maxlen = 1000, sndbuf = 0, rcvbuf = 0, rcutmax = 0;
  long chunk = 0, rec = 16384;
  int fake = 1, gateconn = 0;
  unsigned long seed = 1;
};

struct Exec
{
  Params P;
  std::string certPath, keyPath;
  std::shared_ptr<Transport> tr;
  std::atomic<SessionId> sid{0};
  std::atomic<bool> announced{false}; // accept (srv) / connect (cli) seen
  std::atomic<bool> hsDoneEngine{false};
  std::atomic<bool> closedSeen{false};
  bool infra = false;
  // peer
  int pfd = -1, lfd = -1;
  SSL_CTX *pctx = nullptr;
  SSL *pssl = nullptr;
  BIO *rb = nullptr, *wb = nullptr;
  bool peerHs = false, peerEof = false;
  Decoder dPeer{"PeerRecv", "Garbled", "idx", g_len};
  Decoder dData{"Data", "DataGarbled", "pidx", g_plen};
  std::atomic<long> accBytes{0}; // bytes of accepted sends
  long peerWritten = 0;
  int nextIdx = 1, nextPidx = 1;
  // parking the I/O thread inside a callback (gate) and letting it send from there
  std::atomic<bool> gateArmed{false}, parked{false}, gateOpen{true};
  bool evParkPending = false;
  std::atomic<long> cbReqLen{0};  // > 0: the parked callback shall send a payload of this length ...
  std::atomic<int> cbReqIdx{0};   // ... with this index

  // runs on the I/O thread, right before its read(2) of the eventfd
  void parkAtEventfd()
  {
    parked = true;
    while (!gateOpen.load()) usleep(50);
    parked = false;
  }
  // runs on the I/O thread inside a callback
  void maybePark()
  {
    if (!gateArmed.exchange(false)) return;
    parked = true;
    while (!gateOpen.load())
    {
      long n = cbReqLen.load();
      if (n > 0)
      {
        sendOne("io", n, cbReqIdx.load());
        cbReqLen = 0;
      }
      usleep(50);
    }
    parked = false;
  }
  void armGate()
  {
    gateOpen = false;
    gateArmed = true;
  }
  void sendOne(const std::string &thr, long n, int idx)
  {
    std::vector<std::uint8_t> b;
    genPayload(idx, n, b);
    g_trace.add(vf::Ev("SendCall").str("t", thr).i("idx", idx).i("len", n));
    bool acc;
    if (idx % 2 == 0)
      acc = tr->send(sid.load(), iora::core::BufferView{b.data(), b.size()});
    else
    {
      acc = false;
      tr->sendAsync(sid.load(), iora::core::BufferView{b.data(), b.size()},
                    [&acc](SessionId, const SendResult &r) { acc = r.isOk(); });
    }
    if (acc) accBytes += n;
    g_trace.add(vf::Ev("SendRet").str("t", thr).i("idx", idx).b("acc", acc));
  }

  void infraEv(const std::string &why)
  {
    infra = true;
    g_trace.add(vf::Ev("Infra").str("why", why));
  }
  // the I/O thread sits in epoll_wait (or keeps timing out of it) and has not returned an event for a moment
  bool ioIdle()
  {
    return K.epfdA.load() >= 0 && (K.inWait.load() || K.lastRet.load() == 0) && vf::nowSec() - K.lastActive.load() > 0.002;
  }
  // wait (bounded) until the I/O loop has gone round twice more or is idle - pure observation, no command is sent
  void barrier()
  {
    if (!gateOpen.load()) return; // the I/O thread is parked
    long e0 = K.waitEnter.load();
    waitUntil([&] { return K.waitEnter.load() >= e0 + 2 || ioIdle() || closedSeen.load(); }, 0.05);
  }
  // after a command was enqueued at loop round e0 / wake-up count w0: the loop has woken up and gone round (or is idle again).
  // Bounded: a lost wake-up must not hang the driver - it shows up at End.
  void afterCommand(long e0, long w0)
  {
    if (!gateOpen.load()) return;
    waitUntil([&] { return K.waitEnter.load() >= e0 + 2 || (K.wakes.load() > w0 && ioIdle()) || closedSeen.load(); }, 0.25);
  }
  bool waitUntil(const std::function<bool()> &f, double sec)
  {
    double t0 = vf::nowSec();
    while (!f())
    {
      if (vf::nowSec() - t0 > sec) return false;
      usleep(200);
    }
    return true;
  }

  // ---- peer I/O
  bool sendAllPeer(const std::uint8_t *p, size_t n)
  {
    size_t o = 0;
    double t0 = vf::nowSec();
    while (o < n)
    {
      ssize_t r = real_send()(pfd, p + o, n - o, MSG_NOSIGNAL | MSG_DONTWAIT);
      if (r > 0)
      {
        o += (size_t)r;
        continue;
      }
      if (r < 0 && (errno == EAGAIN || errno == EWOULDBLOCK))
      {
        if (vf::nowSec() - t0 > 10) return false;
        peerRead(65536); // keep reading so that neither side can block the other
        usleep(200);
        continue;
      }
      return false; // reset by the engine
    }
    return true;
  }
  // ciphertext / plaintext to the engine in pieces of P.pcut bytes; between pieces wait until the engine has read the
  // socket empty (its read call answered EAGAIN) - bounded, nothing depends on it but where the cuts fall
  bool sendPieces(const std::uint8_t *p, size_t n)
  {
    if (P.pcut <= 0 || (long)n <= P.pcut) return sendAllPeer(p, n);
    size_t o = 0;
    while (o < n)
    {
      size_t k = std::min<size_t>((size_t)P.pcut, n - o);
      long e0 = K.rEagain.load();
      if (!sendAllPeer(p + o, k)) return false;
      o += k;
      if (o < n) waitUntil([&] { return K.rEagain.load() != e0 || closedSeen.load(); }, 0.05);
    }
    return true;
  }
  void flushPeerTls()
  {
    std::uint8_t buf[32768];
    int n;
    while ((n = BIO_read(wb, buf, sizeof buf)) > 0)
      if (!sendPieces(buf, (size_t)n)) break;
  }
  // read what the engine sent (at most maxBytes from the socket), decode it
  void peerRead(long maxBytes, bool allowHs = true)
  {
    std::vector<std::uint8_t> buf(65536);
    long got = 0;
    while (got < maxBytes && !peerEof)
    {
      ssize_t n = real_recv()(pfd, buf.data(), (size_t)std::min<long>((long)buf.size(), maxBytes - got), MSG_DONTWAIT);
      if (n > 0)
      {
        got += n;
        if (P.tls)
          BIO_write(rb, buf.data(), (int)n);
        else
          dPeer.feed(buf.data(), (size_t)n);
        continue;
      }
      if (n == 0 || (errno != EAGAIN && errno != EWOULDBLOCK && errno != EINTR))
      {
        peerEof = true;
        if (g_logging.load()) g_trace.add(vf::Ev("PeerEof"));
      }
      break;
    }
    if (P.tls)
    {
      if (!peerHs && allowHs && !dPeer.garbled)
      {
        int r = SSL_do_handshake(pssl);
        if (r == 1)
          peerHs = true;
        else
          peerTlsError(r);
      }
      if (peerHs && !dPeer.garbled)
      {
        for (;;)
        {
          int n = SSL_read(pssl, buf.data(), (int)buf.size());
          if (n <= 0)
          {
            peerTlsError(n);
            break;
          }
          dPeer.feed(buf.data(), (size_t)n);
        }
      }
      flushPeerTls();
    }
  }
  // The peer's TLS layer rejects what the engine put on the stream (bad record, wrong version, bad MAC ...): the bytes on
  // the wire are not the TLS-protected concatenation of the payloads.  A stream that merely ends inside a record (the
  // session was closed or reset) is an early end, not a corruption.
  void peerTlsError(int rc)
  {
    int e = SSL_get_error(pssl, rc);
    if (e != SSL_ERROR_SSL)
    {
      ERR_clear_error();
      return;
    }
    unsigned long code = ERR_peek_error();
    ERR_clear_error();
    if (ERR_GET_REASON(code) == SSL_R_UNEXPECTED_EOF_WHILE_READING) return;
    dPeer.garbled = true;
    if (g_logging.load()) g_trace.add(vf::Ev("Garbled").i("at", -1).i("idx", 0).i("off", (long)ERR_GET_REASON(code)));
  }
  bool peerWrite(const std::uint8_t *p, size_t n)
  {
    if (!P.tls) return sendPieces(p, n);
    size_t o = 0;
    while (o < n)
    {
      int r = SSL_write(pssl, p + o, (int)std::min<size_t>(n - o, (size_t)P.rec));
      if (r <= 0) return false;
      o += (size_t)r;
      flushPeerTls();
    }
    return true;
  }

  // ---- engine quiescence (seq mode): two barrier rounds without any I/O attempt, or the engine polling a full socket
  void settle()
  {
    if (!gateOpen.load()) return;
    for (int it = 0; it < 4000; ++it)
    {
      long w0 = K.wcalls.load(), r0 = K.rcalls.load();
      peerRead(1 << 30);
      barrier();
      if (closedSeen.load()) break;
      K.lk.lock();
      bool spin = K.limited.load() && K.room <= 0 && K.lastEagain;
      K.lk.unlock();
      if (K.rcalls.load() == r0 && (K.wcalls.load() == w0 || spin)) break;
      // while its TLS handshake is pending and data is queued the engine re-arms EPOLLOUT and polls the handshake
      // continuously: there is no calmer state to wait for
      if (P.tls && !hsDoneEngine.load() && it >= 2) break;
    }
    peerRead(1 << 30);
  }

  bool setupTlsPeer()
  {
    bool server = P.role == "cli"; // the engine connects => the peer is the TLS server
    pctx = SSL_CTX_new(server ? TLS_server_method() : TLS_client_method());
    if (!pctx) return false;
    if (server)
    {
      if (SSL_CTX_use_certificate_file(pctx, certPath.c_str(), SSL_FILETYPE_PEM) != 1) return false;
      if (SSL_CTX_use_PrivateKey_file(pctx, keyPath.c_str(), SSL_FILETYPE_PEM) != 1) return false;
    }
    SSL_CTX_set_verify(pctx, SSL_VERIFY_NONE, nullptr);
    pssl = SSL_new(pctx);
    rb = BIO_new(BIO_s_mem());
    wb = BIO_new(BIO_s_mem());
    SSL_set_bio(pssl, rb, wb);
    if (server)
      SSL_set_accept_state(pssl);
    else
      SSL_set_connect_state(pssl);
    return true;
  }

  static void setBuf(int fd, long snd, long rcv)
  {
    int v;
    if (snd > 0)
    {
      v = (int)snd;
      setsockopt(fd, SOL_SOCKET, SO_SNDBUF, &v, sizeof v);
    }
    if (rcv > 0)
    {
      v = (int)rcv;
      setsockopt(fd, SOL_SOCKET, SO_RCVBUF, &v, sizeof v);
    }
  }

  bool setup()
  {
    TransportConfig cfg;
    cfg.protocol = Protocol::TCP;
    cfg.useEdgeTriggered = P.et != 0;
    cfg.batching.enabled = P.batch != 0;
    cfg.maxWriteQueue = (std::size_t)P.wq;
    cfg.gcInterval = std::chrono::seconds(3600);
    if (P.mode == "conc" || !P.fake)
    {
      cfg.soSndBuf = (int)P.sndbuf;
      cfg.soRcvBuf = (int)P.rcvbuf;
    }
    if (P.chunk > 0) cfg.ioReadChunk = (std::size_t)P.chunk;
    if (P.tls)
    {
      if (P.role == "srv")
      {
        cfg.serverTls.enabled = true;
        cfg.serverTls.defaultMode = TlsMode::Server;
        cfg.serverTls.certFile = certPath;
        cfg.serverTls.keyFile = keyPath;
      }
      else
      {
        cfg.clientTls.enabled = true;
        cfg.clientTls.defaultMode = TlsMode::Client;
        cfg.clientTls.verifyPeer = false;
      }
      if (!setupTlsPeer()) return false;
    }
    tr = Transport::tcp(cfg);
    tr->onAccept([this](SessionId s, const TransportAddress &)
                 {
                   sid = s;
                   announced = true;
                   if (!P.tls) maybePark(); // (gateconn: a TLS session parks in onConnect, when its handshake is complete)
                 });
    tr->onConnect([this](SessionId s, const TransportAddress &)
                  {
                    // I/O thread; for TLS this is the moment the engine's handshake is complete
                    if (P.tls && P.mode == "seq" && P.fake) K.limited = true;
                    sid = s;
                    hsDoneEngine = true;
                    if (P.role == "cli") announced = true;
                    maybePark();
                  });
    tr->onData([this](SessionId, iora::core::BufferView d, std::chrono::steady_clock::time_point)
               {
                 dData.feed((const std::uint8_t *)d.data(), d.size());
                 maybePark();
               });
    tr->onClose([this](SessionId s, const TransportErrorInfo &)
                {
                  if (sid.load() == 0 || s == sid.load())
                  {
                    if (g_logging.load()) g_trace.add(vf::Ev("Closed"));
                    closedSeen = true;
                  }
                });
    tr->onError([](TransportError, const std::string &) {});
    if (!tr->start().isOk()) return false;
    if (P.gateconn) armGate();
    if (!P.tls && P.mode == "seq" && P.fake) K.limited = true;
    K.cutPerMille = P.mode == "conc" ? P.cutpm : 0;
    K.rcutMax = P.mode == "conc" ? P.rcutmax : 0;
    K.rng.seed(P.seed * 7919 + 13);
    sockaddr_in a{};
    a.sin_family = AF_INET;
    a.sin_addr.s_addr = inet_addr("127.0.0.1");
    if (P.role == "srv")
    {
      auto lr = tr->addListener("127.0.0.1", 0, P.tls ? TlsMode::Server : TlsMode::None);
      if (!lr.isOk()) return false;
      a.sin_port = htons(tr->getListenerAddress(lr.value()).port);
      pfd = ::socket(AF_INET, SOCK_STREAM, 0);
      if (P.mode == "conc" || !P.fake) setBuf(pfd, P.sndbuf, P.rcvbuf);
      if (real_connect()(pfd, (sockaddr *)&a, sizeof a) != 0) return false;
    }
    else
    {
      lfd = ::socket(AF_INET, SOCK_STREAM, 0);
      if (P.mode == "conc" || !P.fake) setBuf(lfd, P.sndbuf, P.rcvbuf);
      a.sin_port = 0;
      if (::bind(lfd, (sockaddr *)&a, sizeof a) != 0 || ::listen(lfd, 4) != 0) return false;
      socklen_t sl = sizeof a;
      getsockname(lfd, (sockaddr *)&a, &sl);
      auto cr = tr->connect("127.0.0.1", ntohs(a.sin_port), P.tls ? TlsMode::Client : TlsMode::None);
      if (!cr.isOk()) return false;
      sid = cr.value();
      pollfd pf{lfd, POLLIN, 0};
      if (poll(&pf, 1, 5000) <= 0) return false;
      pfd = real_accept4()(lfd, nullptr, nullptr, 0);
      if (pfd < 0) return false;
    }
    int fl = fcntl(pfd, F_GETFL, 0);
    fcntl(pfd, F_SETFL, fl | O_NONBLOCK);
    int one = 1;
    setsockopt(pfd, IPPROTO_TCP, TCP_NODELAY, &one, sizeof one);
    // the session exists on the engine side once it is announced (TLS client role: the session id is known from connect())
    if (P.gateconn)
    {
      // the session's accept / connect callback parks the I/O thread (for TLS: once the handshake is complete)
      if (!waitUntil(
            [&]
            {
              if (P.tls) peerRead(1 << 30, true);
              return parked.load();
            },
            8.0))
        return false;
    }
    else if (P.tls && P.role == "cli")
    {
      if (!waitUntil([&] { return K.sessFd.load() >= 0; }, 5.0)) return false;
      barrier();
    }
    else if (!waitUntil([&] { return announced.load(); }, 5.0))
      return false;
    return sid.load() != 0;
  }

  long units(const std::string &tok) const
  {
    if (!tok.empty() && tok.back() == 'b') return atol(tok.substr(0, tok.size() - 1).c_str());
    return atol(tok.c_str()) * P.scale;
  }

  void doSend(const std::string &thr, long n, int idx)
  {
    if (thr == "t1")
      sendOne(thr, n, idx);
    else
    {
      std::thread t([&] { sendOne(thr, n, idx); });
      t.join();
    }
  }

  bool completeHandshake()
  {
    if (!P.tls) return true;
    bool ok = waitUntil(
      [&]
      {
        peerRead(1 << 30, true);
        return (peerHs && hsDoneEngine.load()) || closedSeen.load() || dPeer.garbled || peerEof;
      },
      8.0);
    return ok;
  }

  // generous bounded wait: the kernel is open, the peer reads; done when everything accepted has arrived and everything the
  // peer wrote was delivered, or the session is closed, or nothing moved for stallSec
  void release()
  {
    if (gateOpen.load()) return;
    gateArmed = false;
    K.parkEvArmed = false;
    gateOpen = true;
    waitUntil([&] { return !parked.load(); }, 5.0);
  }

  void finish(double stallSec)
  {
    release();
    K.lk.lock();
    K.limited = false;
    K.errOnce = false;
    K.lk.unlock();
    K.rcut = 0;
    K.rcutMax = 0;
    wakeEpollOut();
    if (P.tls && !peerHs && !closedSeen.load()) completeHandshake();
    double last = vf::nowSec();
    long seen = -1;
    for (;;)
    {
      peerRead(1 << 30);
      long prog = dPeer.total + dData.total + (long)g_trace.size();
      if (prog != seen)
      {
        seen = prog;
        last = vf::nowSec();
      }
      bool allOut = dPeer.total >= accBytes.load() || dPeer.garbled;
      bool allIn = dData.total >= peerWritten || dData.garbled;
      if (closedSeen.load() || peerEof || (allOut && allIn)) break;
      if (vf::nowSec() - last > stallSec)
      {
        g_trace.add(vf::Ev("Note").str("what", "stall").i("peerGot", dPeer.total).i("accepted", accBytes.load()).i(
          "delivered", dData.total).i("peerWrote", peerWritten));
        break;
      }
      usleep(300);
    }
    if (peerEof && !closedSeen.load()) waitUntil([&] { return closedSeen.load(); }, 2.0);
    barrier();
    g_trace.add(vf::Ev("End"));
  }

  void runSeq(const std::vector<std::string> &parts)
  {
    for (size_t si = 1; si < parts.size() && !infra; ++si)
    {
      auto w = vf::words(parts[si]);
      if (w.empty()) continue;
      const std::string &op = w[0];
      if (closedSeen.load() && op != "SEND") continue; // nothing but refused / dropped sends can follow a close
      if (op == "SEND")
      {
        int idx = nextIdx++;
        long n = units(w[2]);
        g_len[idx] = (int)n;
        long e0 = K.waitEnter.load(), w0 = K.wakes.load();
        doSend(w[1], n, idx);
        if (evParkPending) // (PARKEV: this send wakes the loop, which parks at its eventfd read)
        {
          if (waitUntil([&] { return parked.load(); }, 1.0)) g_trace.add(vf::Ev("Note").str("what", "parked-at-eventfd-read"));
          evParkPending = false;
        }
        afterCommand(e0, w0);
        settle();
      }
      else if (op == "DRAIN")
      {
        long n = units(w[1]);
        K.lk.lock();
        K.room += n;
        K.lk.unlock();
        wakeEpollOut();
        settle();
      }
      else if (op == "ERR")
      {
        K.lk.lock();
        K.errOnce = true;
        K.lk.unlock();
      }
      else if (op == "HSDONE")
      {
        if (!completeHandshake())
        {
          infraEv("TLS handshake did not complete within 8 s");
          break;
        }
        settle();
      }
      else if (op == "PWRITE")
      {
        if (P.tls && !peerHs) continue; // (the model forbids it too)
        int pidx = nextPidx++;
        long n = units(w[1]);
        g_plen[pidx] = (int)n;
        std::vector<std::uint8_t> b;
        genPayload(pidx, n, b);
        g_trace.add(vf::Ev("PeerWrite").i("pidx", pidx).i("len", n));
        peerWritten += n;
        long want = dData.total + n;
        if (!peerWrite(b.data(), b.size()) && !closedSeen.load() && !peerEof)
        {
          infraEv("peer write failed");
          break;
        }
        waitUntil([&] { return dData.total >= want || closedSeen.load(); }, 0.3);
        settle();
      }
      else if (op == "RCUT")
      {
        K.rcut = units(w[1]);
      }
      else if (op == "PWRITEG")
      {
        if ((P.tls && !peerHs) || !gateOpen.load()) continue;
        int pidx = nextPidx++;
        long n = units(w[1]);
        g_plen[pidx] = (int)n;
        std::vector<std::uint8_t> b;
        genPayload(pidx, n, b);
        g_trace.add(vf::Ev("PeerWrite").i("pidx", pidx).i("len", n));
        peerWritten += n;
        armGate();
        if (!peerWrite(b.data(), b.size()) && !closedSeen.load() && !peerEof)
        {
          infraEv("peer write failed");
          break;
        }
        if (!waitUntil([&] { return parked.load() || closedSeen.load(); }, 5.0))
        {
          infraEv("the data callback did not run within 5 s");
          break;
        }
        if (!parked.load()) release();
      }
      else if (op == "CBSEND")
      {
        if (!parked.load()) continue; // (no callback is parked: the behaviour drifted)
        int idx = nextIdx++;
        long n = units(w[1]);
        g_len[idx] = (int)n;
        cbReqIdx = idx;
        cbReqLen = n;
        if (!waitUntil([&] { return cbReqLen.load() == 0; }, 5.0))
        {
          infraEv("the parked callback did not send within 5 s");
          break;
        }
      }
      else if (op == "RELEASE")
      {
        release();
        barrier();
        settle();
      }
      else if (op == "PARKEV")
      {
        if (!gateOpen.load() || K.evFd.load() < 0) continue;
        gateOpen = false;
        K.parkEvArmed = true;
        evParkPending = true;
      }
      else if (op == "AUTODRAIN")
      {
        K.lk.lock();
        K.autoDrain = units(w[1]);
        K.lk.unlock();
      }
      else if (op == "PCLOSE")
      {
        if (P.tls && peerHs)
        {
          SSL_shutdown(pssl);
          flushPeerTls();
        }
        ::shutdown(pfd, SHUT_WR);
        waitUntil([&] { return closedSeen.load(); }, 1.0);
        settle();
      }
      else if (op == "CLOSE")
      {
        long e0 = K.waitEnter.load(), w0 = K.wakes.load();
        tr->close(sid.load());
        afterCommand(e0, w0);
        settle();
      }
      else
      {
        infraEv("unknown step " + op);
      }
    }
    if (!infra) finish(6.0);
  }

  void runConc()
  {
    if (P.tls && !completeHandshake())
    {
      infraEv("TLS handshake did not complete within 8 s");
      return;
    }
    std::mt19937_64 rng(P.seed);
    int total = P.threads * P.sends;
    // sizes: a mix of tiny, medium and multi-buffer payloads
    std::vector<long> sizes((size_t)total + 1);
    for (int i = 1; i <= total; ++i)
    {
      int c = (int)(rng() % 10);
      long n = c < 3 ? 1 + (long)(rng() % 16) : c < 8 ? 1 + (long)(rng() % std::max<long>(1, P.maxlen / 8)) : 1 + (long)(rng() % P.maxlen);
      sizes[(size_t)i] = n;
      g_len[i] = (int)n;
    }
    std::atomic<int> next{1};
    std::atomic<int> running{P.threads};
    std::vector<std::thread> th;
    for (int t = 0; t < P.threads; ++t)
    {
      th.emplace_back(
        [&, t]
        {
          std::mt19937_64 r(P.seed * 31 + (unsigned long)t);
          std::string name = "t" + std::to_string(t + 1);
          for (int k = 0; k < P.sends; ++k)
          {
            int idx = next.fetch_add(1);
            long n = sizes[(size_t)idx];
            std::vector<std::uint8_t> b;
            genPayload(idx, n, b);
            g_trace.add(vf::Ev("SendCall").str("t", name).i("idx", idx).i("len", n));
            bool acc;
            if (idx % 2 == 0)
              acc = tr->send(sid.load(), iora::core::BufferView{b.data(), b.size()});
            else
            {
              acc = false;
              tr->sendAsync(sid.load(), iora::core::BufferView{b.data(), b.size()},
                            [&acc](SessionId, const SendResult &res) { acc = res.isOk(); });
            }
            if (acc) accBytes += n;
            g_trace.add(vf::Ev("SendRet").str("t", name).i("idx", idx).b("acc", acc));
            if (r() % 4 == 0) usleep((useconds_t)(r() % 300));
          }
          running--;
        });
    }
    // the peer: reads slowly in small pieces (real back-pressure on the engine) and writes its own payloads in between
    int pw = 0;
    while (running.load() > 0 && !closedSeen.load() && !peerEof)
    {
      peerRead(1 + (long)(rng() % 6000));
      if (pw < P.pwrites && rng() % 8 == 0)
      {
        int pidx = nextPidx++;
        long n = 1 + (long)(rng() % std::max<long>(1, P.maxlen / 2));
        g_plen[pidx] = (int)n;
        std::vector<std::uint8_t> b;
        genPayload(pidx, n, b);
        g_trace.add(vf::Ev("PeerWrite").i("pidx", pidx).i("len", n));
        peerWritten += n;
        if (!peerWrite(b.data(), b.size())) break;
        ++pw;
      }
      usleep((useconds_t)(rng() % 200));
    }
    for (auto &t : th) t.join();
    finish(8.0);
  }

  std::string run(const std::string &line)
  {
    auto parts = vf::split(line, ';');
    for (auto &w : vf::words(parts[0]))
    {
      auto kv = vf::split(w, '=');
      if (kv.size() != 2) continue;
      const std::string &k = kv[0], &v = kv[1];
      long n = atol(v.c_str());
      if (k == "mode") P.mode = v;
      else if (k == "role") P.role = v;
      else if (k == "tls") P.tls = (int)n;
      else if (k == "et") P.et = (int)n;
      else if (k == "batch") P.batch = (int)n;
      else if (k == "wq") P.wq = n;
      else if (k == "scale") P.scale = n;
      else if (k == "pcut") P.pcut = n;
      else if (k == "threads") P.threads = (int)n;
      else if (k == "sends") P.sends = (int)n;
      else if (k == "pwrites") P.pwrites = (int)n;
      else if (k == "cutpm") P.cutpm = (int)n;
      else if (k == "maxlen") P.maxlen = n;
      else if (k == "sndbuf") P.sndbuf = n;
      else if (k == "rcvbuf") P.rcvbuf = n;
      else if (k == "rcutmax") P.rcutmax = n;
      else if (k == "seed") P.seed = (unsigned long)n;
      else if (k == "chunk") P.chunk = n;
      else if (k == "rec") P.rec = n > 0 ? std::min<long>(n, 16384) : 16384;
      else if (k == "fake") P.fake = (int)n;
      else if (k == "gateconn") P.gateconn = (int)n;
    }
    signal(SIGPIPE, SIG_IGN);
    if (!setup()) return "{\"e\":\"Infra\",\"why\":\"setup failed\"}\n";
    g_logging = true;
    g_trace.add(vf::Ev("Begin").str("mode", P.mode).str("role", P.role).i("tls", P.tls).i("et", P.et).i("batch", P.batch).i("wq", P.wq));
    if (P.mode == "seq")
      runSeq(parts);
    else
      runConc();
    g_logging = false;
    // stop() enqueues a command and joins the I/O thread: bounded, so that an engine that misses the wake-up cannot hang the
    // driver (the execution has been recorded by now)
    std::atomic<bool> stopped{false};
    std::thread stopper([&] {
      tr->stop();
      stopped = true;
    });
    if (waitUntil([&] { return stopped.load(); }, 5.0))
    {
      stopper.join();
      tr.reset();
    }
    else
      stopper.detach();
    return g_trace.text();
  }
};

static Exec *g_exec = nullptr;

int main(int argc, char **argv)
{
  if (argc < 5 || std::string(argv[1]) != "run")
  {
    fprintf(stderr, "usage: drv_tcpstream run <cases.txt> <out.ndjson> <parallel>\n");
    return 2;
  }
  auto lines = vf::readLines(argv[2]);
  std::string out = argv[3];
  std::string scratch = out + ".d";
  mkdir(scratch.c_str(), 0777);
  std::string cert = scratch + "/cert.pem", key = scratch + "/key.pem";
  if (!makeCert(cert, key))
  {
    fprintf(stderr, "certificate generation failed\n");
    return 2;
  }
  auto r = vf::runMany((int)lines.size(), atoi(argv[4]), 120.0, scratch, out,
                       [&](int i)
                       {
                         Exec *x = new Exec; // (never destroyed: the child _exit()s; a hung engine must not hang a destructor)
                         g_exec = x;
                         g_parkAtEventfd = [] { g_exec->parkAtEventfd(); };
                         x->certPath = cert;
                         x->keyPath = key;
                         return x->run(lines[i]);
                       });
  printf("executions=%d crashed=%d timedOut=%d\n", r.executions, r.crashed, r.timedOut);
  return 0;
}
