// X25: iora::storage::ConcreteStateStore under the deterministic scheduler (one std::mutex, every member one critical section):
// sequential conformance with the state graph of spec/extra/StateStore.tla and linearizability of concurrent use.
//   drv_s_statestore run <cases.txt> <out.ndjson>
//   case:  a=set:Ab:1,get:ab,keys;b=remove:AB,prefix:A,byvalue:1,matching,size,empty | random <seed>
//          keys are literal texts ("_" = the empty text), values are ids (stored as "v<id>")
// Events (judged by spec/extra/StoreTrace.tla): Begin Call{t,op,k,v} Ret{t,op,ok,rv,ks,calls} End{outcome}
//   k / ks: character codes; rv: value id (get; -2 = a value no set() wrote) or size; calls: matcher invocations.
// "reenter" = findKeysMatching with a matcher that calls contains() on the same store (directed probe: it runs under the
// store's non-recursive mutex).  The matcher of "matching" accepts keys that contain 'a' or 'A' and THROWS std::runtime_error on keys starting with 'b' / 'B'.
#include "iora/storage/concrete_state_store.hpp"
#include "vf/exec.hpp"
#include "vf/sched.hpp"
#include "vf/trace.hpp"
#include <memory>
#include <thread>
using Store = iora::storage::ConcreteStateStore;
struct Op { std::string op, k; int v = 0; };
struct TP { std::string name; std::vector<Op> ops; };
static std::string codes(const std::string &s)
{
  std::string o = "[";
  for (size_t i = 0; i < s.size(); ++i) o += (i ? "," : "") + std::to_string((int)(unsigned char)s[i]);
  return o + "]";
}
static std::string codesList(const std::vector<std::string> &v)
{
  std::string o = "[";
  for (size_t i = 0; i < v.size(); ++i) o += (i ? "," : "") + codes(v[i]);
  return o + "]";
}
static std::string runOne(const std::vector<TP> &prog, const vf::Options &opt)
{
  auto tr = std::make_shared<vf::Trace>();
  tr->add(vf::Ev("Begin"));
  vf::Options o = opt; o.maxSteps = 20000;
  vf::reset(o);
  vf::spawn("main", [tr, &prog]() {
    vf::point("start");
    auto m = std::make_shared<Store>();
    std::vector<std::thread> th;
    for (auto &tp : prog) {
      vf::nameNextChild(tp.name);
      th.emplace_back([tr, m, &tp]() {
        for (auto &op : tp.ops) {
          vf::point("call");
          tr->add(vf::Ev("Call").str("t", tp.name).str("op", op.op).raw("k", codes(op.k)).i("v", op.v));
          bool ok = false; int rv = -1, calls = -1; std::vector<std::string> ks;
          try {
            if (op.op == "set") { m->set(op.k, "v" + std::to_string(op.v)); ok = true; }
            else if (op.op == "get") { auto r = m->get(op.k); ok = r.has_value(); if (ok) rv = (r->size() >= 2 && (*r)[0] == 'v') ? atoi(r->c_str() + 1) : -2; }
            else if (op.op == "remove") ok = m->remove(op.k);
            else if (op.op == "contains") ok = m->contains(op.k);
            else if (op.op == "size") { rv = (int)m->size(); ok = true; }
            else if (op.op == "empty") ok = m->empty();
            else if (op.op == "keys") { ks = m->keys(); ok = true; }
            else if (op.op == "prefix") { ks = m->findKeysWithPrefix(op.k); ok = true; }
            else if (op.op == "byvalue") { ks = m->findKeysByValue("v" + std::to_string(op.v)); ok = true; }
            else if (op.op == "matching") {
              calls = 0;
              ks = m->findKeysMatching([&calls](const std::string &k) {
                ++calls;
                if (!k.empty() && (k[0] == 'b' || k[0] == 'B')) throw std::runtime_error("matcher");
                return k.find('a') != std::string::npos || k.find('A') != std::string::npos; });
              ok = true;
            }
            else if (op.op == "reenter") { // the matcher calls back into the store (directed probe)
              calls = 0;
              ks = m->findKeysMatching([&calls, m](const std::string &k) { ++calls; return m->contains(k); });
              ok = true;
            }
          } catch (...) { tr->add(vf::Ev("Threw").str("t", tp.name).str("op", op.op)); }
          tr->add(vf::Ev("Ret").str("t", tp.name).str("op", op.op).b("ok", ok).i("rv", rv).raw("ks", codesList(ks)).i("calls", calls));
        }
      });
    }
    for (auto &t : th) t.join();
  });
  vf::Result r = vf::run();
  tr->add(vf::Ev("End").str("outcome", r.outcome == vf::Outcome::Done ? "done" : r.outcome == vf::Outcome::Stuck ? "stuck" : "other"));
  return tr->text();
}
int main(int argc, char **argv)
{
  if (argc < 4 || std::string(argv[1]) != "run") return 2;
  iora::core::Logger::setLevel(iora::core::Logger::Level::Fatal);
  auto lines = vf::readLines(argv[2]);
  struct Case { std::vector<TP> prog; vf::Options opt; };
  std::vector<Case> cases;
  for (auto &ln : lines) {
    auto parts = vf::split(ln, '|'); if (parts.size() < 2) continue;
    Case c; std::string p; for (auto &x : vf::words(parts[0])) p += x;
    for (auto &pp : vf::split(p, ';')) { auto eq = pp.find('='); if (eq == std::string::npos) continue; TP tp; tp.name = pp.substr(0, eq);
      for (auto &x : vf::split(pp.substr(eq + 1), ',')) { if (x.empty()) continue; auto f = vf::split(x, ':'); Op o; o.op = f[0];
        if (o.op == "byvalue") { if (f.size() > 1) o.v = atoi(f[1].c_str()); }
        else { if (f.size() > 1) o.k = f[1] == "_" ? "" : f[1]; if (f.size() > 2) o.v = atoi(f[2].c_str()); }
        tp.ops.push_back(o); }
      c.prog.push_back(tp); }
    auto pw = vf::words(parts[1]); c.opt.policy = vf::Policy::Random; c.opt.seed = pw.size() > 1 ? strtoull(pw[1].c_str(), nullptr, 10) : 1;
    cases.push_back(std::move(c));
  }
  auto res = vf::runMany((int)cases.size(), 8, 30.0, std::string(argv[3]) + ".d", argv[3], [&](int i) { return runOne(cases[i].prog, cases[i].opt); });
  printf("executions=%d crashed=%d timedout=%d\n", res.executions, res.crashed, res.timedOut);
  return 0;
}
