// X07 (extra): iora::util::TtlMap<int,int> with its periodic sweeper on a REAL iora::core::TimerService, everything under the
// deterministic scheduler and VIRTUAL time.  The timer service's epoll thread is made schedulable by a small virtual layer for
// its timerfd / eventfd / epoll_wait (defined below: symbol interposition in this executable, no source hook): epoll_wait of a
// registered thread becomes a timed condition wait until the timerfd's virtual deadline, so "the sweeper fires" is a scheduler
// decision like every other time-out, and time moves only when a thread sleeps or a timed wait is granted its time-out.
//   drv_s_ttlmap run <cases.txt> <out.ndjson> [parallel]
//   drv_s_ttlmap dfs "<case line without schedule>" <preemption bound> <max executions> <out.ndjson> [parallel]
//   case:  <maxEntries> <defaultTtl s> <sweepInterval s> <teardown 0|1|2> | a=put:1:0,get:1,sleep:2,inv:1,clear,stats;b=... | random <seed> [tp=<permille>]
//     teardown 0: settle (3 sweep intervals, idle), read stats, stop the timer service, destroy the map   (the lifetime contract)
//              1: destroy the map while the service is live (and possibly sweeping), then stop the service
//              2: as 1 but without settling first
//     ops: put:<k>:<ttl s, 0 = default>  get:<k>  inv:<k>  clear  stats  sleep:<s>
// Events (every one carries t = virtual time since the start, seconds * 1000 + nanoseconds; the nanosecond part stays < 1000
//   because only whole-second sleeps and the +1 ns of granted time-outs move the clock):
//   Begin{max,dflt,sweep}  Tick{t}  Call{t,th,op,k,v,ttl}  Ret{t,th,op,hit,v,size,hits,misses,ev}  Settle{t}  Life{t,op}  End{outcome}
#include "iora/util/ttl_map.hpp"
#include "drv_xcore.hpp"

#include <condition_variable>
#include <memory>
#include <mutex>
#include <sys/syscall.h>
#include <thread>

using Map = iora::util::TtlMap<int, int>;
using Clock = std::chrono::steady_clock;
static vf::Trace *g_tr = nullptr;
static Clock::time_point g_t0;
static std::atomic<int> g_val{0};
static std::atomic<bool> g_badTime{false};
static std::atomic<bool> g_strictTime{true}; // off once the timer service is being stopped (its drain waits use sub-second budgets)

static long long vnow()
{
  auto ns = std::chrono::duration_cast<std::chrono::nanoseconds>(Clock::now() - g_t0).count();
  long long s = ns / 1000000000LL, r = ns % 1000000000LL;
  if (r >= 1000 && g_strictTime) g_badTime = true;
  return s * 1000 + (r < 1000 ? r : 999);
}

// ------------------------------------------------------------------------------------------ virtual timerfd / eventfd / epoll
namespace vio
{
static int tfd = -1, efd = -1;
static std::mutex m;
static std::condition_variable cv;
static bool armed = false, fired = false;
static Clock::time_point deadline;
static uint64_t evCount = 0;
static bool on() { return vf::self() >= 0; }
} // namespace vio

extern "C"
{
int timerfd_create(int clk, int flags)
{
  int fd = (int)syscall(SYS_timerfd_create, clk, flags);
  if (vio::on()) vio::tfd = fd;
  return fd;
}
int eventfd(unsigned int init, int flags)
{
  int fd = (int)syscall(SYS_eventfd2, init, flags);
  if (vio::on()) vio::efd = fd;
  return fd;
}
int timerfd_settime(int fd, int flags, const struct itimerspec *nv, struct itimerspec *ov)
{
  if (!vio::on() || fd != vio::tfd) return (int)syscall(SYS_timerfd_settime, fd, flags, nv, ov);
  {
    std::lock_guard<std::mutex> lk(vio::m);
    if (nv->it_value.tv_sec == 0 && nv->it_value.tv_nsec == 0)
      vio::armed = false;
    else
    {
      vio::armed = true;
      vio::deadline = Clock::now() + std::chrono::seconds(nv->it_value.tv_sec) + std::chrono::nanoseconds(nv->it_value.tv_nsec);
    }
    vio::fired = false;
  }
  vio::cv.notify_all();
  return 0;
}
ssize_t write(int fd, const void *buf, size_t n)
{
  if (!vio::on() || fd != vio::efd || fd < 0) return syscall(SYS_write, fd, buf, n);
  {
    std::lock_guard<std::mutex> lk(vio::m);
    vio::evCount += *(const uint64_t *)buf;
  }
  vio::cv.notify_all();
  return 8;
}
ssize_t read(int fd, void *buf, size_t n)
{
  if (!vio::on() || fd < 0 || (fd != vio::efd && fd != vio::tfd)) return syscall(SYS_read, fd, buf, n);
  std::lock_guard<std::mutex> lk(vio::m);
  if (fd == vio::efd)
  {
    if (vio::evCount == 0)
    {
      errno = EAGAIN;
      return -1;
    }
    *(uint64_t *)buf = vio::evCount;
    vio::evCount = 0;
    return 8;
  }
  if (!vio::fired)
  {
    errno = EAGAIN;
    return -1;
  }
  *(uint64_t *)buf = 1;
  vio::fired = false;
  return 8;
}
int epoll_wait(int epfd, struct epoll_event *events, int maxevents, int timeout)
{
  if (!vio::on()) return (int)syscall(SYS_epoll_wait, epfd, events, maxevents, timeout);
  std::unique_lock<std::mutex> lk(vio::m);
  for (;;)
  {
    int n = 0;
    if (vio::armed && Clock::now() >= vio::deadline)
    {
      vio::armed = false;
      vio::fired = true;
    }
    if (vio::evCount > 0 && n < maxevents)
    {
      events[n].events = EPOLLIN;
      events[n].data.fd = vio::efd;
      ++n;
    }
    if (vio::fired && n < maxevents)
    {
      events[n].events = EPOLLIN;
      events[n].data.fd = vio::tfd;
      ++n;
    }
    if (n) return n;
    long long before = vnow();
    if (vio::armed)
      vio::cv.wait_until(lk, vio::deadline);
    else
      vio::cv.wait(lk);
    long long after = vnow();
    if (after != before && g_tr) g_tr->add(vf::Ev("Tick").i("t", after)); // this thread's time-out moved the clock
  }
}
}

// ------------------------------------------------------------------------------------------ the driver proper
struct Case
{
  int maxEntries = 2, dflt = 2, sweep = 2, teardown = 0;
  std::vector<xc::ThreadProg> prog;
  vf::Options opt;
};

static void logStats(const char *ev, const std::string &th, Map &m, const char *op, int fair = 1)
{
  auto s = m.stats();
  g_tr->add(vf::Ev(ev).i("t", vnow()).str("th", th).str("op", op).i("fair", fair).i("size", (long long)s.size).i("hits", (long long)s.hits).i("misses", (long long)s.misses).i("ev", (long long)s.evictions));
}

static void runOp(Map &m, const std::string &th, const xc::Op &op)
{
  int k = op.arg(0);
  if (op.op == "put")
  {
    int v = ++g_val, ttl = op.arg(1);
    g_tr->add(vf::Ev("Call").i("t", vnow()).str("th", th).str("op", "put").i("k", k).i("v", v).i("ttl", ttl));
    if (ttl > 0)
      m.put(k, v, std::chrono::seconds(ttl));
    else
      m.put(k, v);
    g_tr->add(vf::Ev("Ret").i("t", vnow()).str("th", th).str("op", "put"));
  }
  else if (op.op == "get")
  {
    g_tr->add(vf::Ev("Call").i("t", vnow()).str("th", th).str("op", "get").i("k", k));
    auto r = m.get(k);
    g_tr->add(vf::Ev("Ret").i("t", vnow()).str("th", th).str("op", "get").b("hit", r.has_value()).i("v", r ? *r : 0));
  }
  else if (op.op == "inv")
  {
    g_tr->add(vf::Ev("Call").i("t", vnow()).str("th", th).str("op", "inv").i("k", k));
    m.invalidate(k);
    g_tr->add(vf::Ev("Ret").i("t", vnow()).str("th", th).str("op", "inv"));
  }
  else if (op.op == "clear")
  {
    g_tr->add(vf::Ev("Call").i("t", vnow()).str("th", th).str("op", "clear"));
    m.clear();
    g_tr->add(vf::Ev("Ret").i("t", vnow()).str("th", th).str("op", "clear"));
  }
  else if (op.op == "stats")
  {
    g_tr->add(vf::Ev("Call").i("t", vnow()).str("th", th).str("op", "stats"));
    logStats("Ret", th, m, "stats");
  }
  else if (op.op == "sleep")
  {
    std::this_thread::sleep_for(std::chrono::seconds(k));
    g_tr->add(vf::Ev("Tick").i("t", vnow()));
  }
}

static std::string runOne(const Case &c, const vf::Options &opt, bool emitSched)
{
  auto tr = std::make_shared<vf::Trace>();
  g_tr = tr.get();
  g_val = 0;
  g_strictTime = true;
  tr->add(vf::Ev("Begin").i("max", c.maxEntries).i("dflt", c.dflt).i("sweep", c.sweep));
  vf::Options o = opt;
  o.maxSteps = 60000;
  o.earliestDeadlineFirst = true; // idle system: the sleeper / timed waiter that is due first runs first (discrete-event order)
  vf::reset(o);
  vf::spawn("main",
            [tr, &c]()
            {
              vf::point("start");
              g_t0 = Clock::now();
              vf::nameNextChild("timer");
              auto *timers = new iora::core::TimerService();
              Map::Config cfg{std::chrono::seconds(c.dflt), (std::size_t)c.maxEntries, std::chrono::seconds(c.sweep)};
              auto *map = new Map(cfg, *timers);
              tr->add(vf::Ev("Life").i("t", vnow()).str("op", "constructed"));
              std::vector<std::thread> th;
              for (size_t i = 0; i < c.prog.size(); ++i)
              {
                vf::nameNextChild(c.prog[i].name);
                th.emplace_back(
                  [map, &c, i]()
                  {
                    for (auto &op : c.prog[i].ops)
                    {
                      vf::point("call");
                      runOp(*map, c.prog[i].name, op);
                    }
                  });
              }
              for (auto &t : th) t.join();
              vf::point("teardown");
              if (c.teardown != 2)
              {
                // settle: nobody but the sweeper is left; three sweep intervals pass, one second at a time.  The sweeper is
                // only OBLIGED to have run if it was never passed over while it could run (a random schedule may grant our
                // sleeps although the timer thread is runnable: an unfair jump - then Settle carries fair = 0)
                long unfair0 = vf::unfairJumps();
                for (int i = 0; i < 3 * c.sweep; ++i)
                {
                  std::this_thread::sleep_for(std::chrono::seconds(1));
                  tr->add(vf::Ev("Tick").i("t", vnow()));
                }
                logStats("Settle", "main", *map, "settle", vf::unfairJumps() == unfair0 ? 1 : 0);
              }
              if (c.teardown == 0)
              {
                tr->add(vf::Ev("Life").i("t", vnow()).str("op", "stop"));
                g_strictTime = false; // no map operation follows: time only has to stay monotone from here on
                timers->stop();
                tr->add(vf::Ev("Life").i("t", vnow()).str("op", "stopped"));
                delete map;
                tr->add(vf::Ev("Life").i("t", vnow()).str("op", "destroyed"));
              }
              else
              {
                vf::point("destroy");
                tr->add(vf::Ev("Life").i("t", vnow()).str("op", "destroy"));
                delete map;
                tr->add(vf::Ev("Life").i("t", vnow()).str("op", "destroyed"));
                std::this_thread::sleep_for(std::chrono::seconds(c.sweep + 1)); // a cancelled sweeper must stay silent
                g_strictTime = false;
                timers->stop();
                tr->add(vf::Ev("Life").i("t", vnow()).str("op", "stopped"));
              }
              delete timers;
            });
  vf::Result r = vf::run();
  if (g_badTime) tr->add(vf::Ev("BadTime"));
  tr->add(xc::endEvent(r));
  std::string text = tr->text();
  if (emitSched) text += xc::schedLine(r);
  return text;
}

static bool parseCase(const std::string &ln, Case &c, bool withSched)
{
  auto parts = vf::split(ln, '|');
  if (parts.size() < (withSched ? 3u : 2u)) return false;
  auto w = vf::words(parts[0]);
  if (w.size() < 4) return false;
  c.maxEntries = atoi(w[0].c_str());
  c.dflt = atoi(w[1].c_str());
  c.sweep = atoi(w[2].c_str());
  c.teardown = atoi(w[3].c_str());
  c.prog = xc::parseProg(parts[1]);
  if (withSched) c.opt = xc::parseSched(parts[2]);
  return true;
}

int main(int argc, char **argv)
{
  if (argc < 3) return 2;
  std::string cmd = argv[1];
  if (cmd == "run" && argc >= 4)
  {
    std::vector<Case> cases;
    for (auto &ln : vf::readLines(argv[2]))
    {
      Case c;
      if (parseCase(ln, c, true)) cases.push_back(std::move(c));
    }
    int par = argc > 4 ? atoi(argv[4]) : 8;
    auto res = vf::runMany((int)cases.size(), par, 90.0, std::string(argv[3]) + ".d", argv[3], [&](int i) { return runOne(cases[i], cases[i].opt, false); });
    printf("executions=%d crashed=%d timedout=%d\n", res.executions, res.crashed, res.timedOut);
    return 0;
  }
  if (cmd == "dfs" && argc >= 6)
  {
    Case c;
    if (!parseCase(argv[2], c, false)) return 2;
    return xc::dfs([&](const vf::Options &o, bool s) { return runOne(c, o, s); }, atoi(argv[3]), atoi(argv[4]), argv[5], argc > 6 ? atoi(argv[6]) : 8);
  }
  return 2;
}
