// Shared helpers of the X05..X08 extra drivers (state machine, signal, TTL map, object pool): thread-program and schedule
// parsing, the End event, and a stateless preemption-bounded DFS over the schedules of the real object (as in drv_bq.cpp,
// but with thread NAMES in the prefixes so that threads created by the code under test are handled too).
//   schedule field of a case line:   random <seed> [tp=<permille: timed waits may time out although others can run>]
//                                    replay <plan entries>      (t, t!, t*op, t*   — see vf/sched.hpp)
//                                    prefix <plan entries>
#pragma once
#include "vf/exec.hpp"
#include "vf/sched.hpp"
#include "vf/trace.hpp"

#include <algorithm>
#include <map>
#include <random>
#include <set>
#include <string>
#include <vector>

namespace xc
{

struct Op
{
  std::string op;
  std::vector<int> a; // integer arguments
  int arg(size_t i, int d = 0) const { return i < a.size() ? a[i] : d; }
};
struct ThreadProg
{
  std::string name;
  std::vector<Op> ops;
};

// "a=acq:1,rel:1;b=stats"  ->  thread programs
inline std::vector<ThreadProg> parseProg(const std::string &s)
{
  std::vector<ThreadProg> out;
  std::string p;
  for (auto &x : vf::words(s)) p += x;
  for (auto &part : vf::split(p, ';'))
  {
    if (part.empty()) continue;
    auto eq = part.find('=');
    ThreadProg tp;
    tp.name = part.substr(0, eq);
    if (eq != std::string::npos)
      for (auto &o : vf::split(part.substr(eq + 1), ','))
      {
        if (o.empty()) continue;
        auto f = vf::split(o, ':');
        Op op;
        op.op = f[0];
        for (size_t i = 1; i < f.size(); ++i) op.a.push_back(atoi(f[i].c_str()));
        tp.ops.push_back(op);
      }
    out.push_back(tp);
  }
  return out;
}

inline vf::Options parseSched(const std::string &s)
{
  vf::Options o;
  auto w = vf::words(s);
  if (w.empty()) return o;
  if (w[0] == "random")
  {
    o.policy = vf::Policy::Random;
    o.seed = w.size() > 1 ? strtoull(w[1].c_str(), nullptr, 10) : 1;
    for (size_t i = 2; i < w.size(); ++i)
      if (w[i].rfind("tp=", 0) == 0)
      {
        o.timeoutsOnlyWhenIdle = false;
        o.timeoutPermille = atoi(w[i].c_str() + 3);
      }
  }
  else
  {
    o.policy = w[0] == "prefix" ? vf::Policy::Prefix : vf::Policy::Replay;
    o.plan.assign(w.begin() + 1, w.end());
  }
  return o;
}

inline const char *outcomeName(const vf::Result &r)
{
  return r.outcome == vf::Outcome::Done ? "done" : r.outcome == vf::Outcome::Stuck ? "stuck" : r.outcome == vf::Outcome::StepLimit ? "steplimit" : "external";
}

inline vf::Ev endEvent(const vf::Result &r)
{
  std::vector<std::string> stuck;
  for (auto &s : r.stuck) stuck.push_back(s);
  vf::Ev e("End");
  e.str("outcome", outcomeName(r)).strs("stuck", stuck).b("drift", r.drift).i("steps", (long long)r.steps.size());
  return e;
}

// side channel for the DFS parent: "#S name:enabledName,enabledName ..." (stripped before the trace is written out)
inline std::string schedLine(const vf::Result &r)
{
  std::map<int, std::string> names;
  for (auto &st : r.steps) names[st.tid] = st.thread;
  std::string s = "#S";
  for (auto &st : r.steps)
  {
    s += " " + st.thread + ":";
    bool first = true;
    for (int id : st.enabled)
    {
      auto it = names.find(id);
      if (it == names.end()) continue; // a thread that never ran in this execution cannot be named in a prefix
      s += (first ? "" : ",") + it->second;
      first = false;
    }
  }
  return s + "\n";
}

// Stateless DFS with a preemption bound: body(options, emitSchedule) runs ONE execution and returns its ndjson text
// (followed by schedLine() when emitSchedule).  Output: executions separated by Reset lines, as runMany writes them.
inline int dfs(const std::function<std::string(const vf::Options &, bool)> &body, int bound, int maxExec, const std::string &outPath, int par, unsigned seed = 12345u)
{
  struct Node
  {
    std::vector<std::string> prefix;
    int preemptions;
  };
  std::vector<Node> wave{{{}, 0}};
  std::set<std::vector<std::string>> seen;
  FILE *out = fopen(outPath.c_str(), "w");
  int total = 0;
  bool truncated = false;
  while (!wave.empty() && total < maxExec)
  {
    if ((int)wave.size() > maxExec - total)
    {
      std::shuffle(wave.begin(), wave.end(), std::mt19937(seed + (unsigned)total));
      wave.resize(maxExec - total);
      truncated = true;
    }
    std::string tmp = outPath + ".wave";
    vf::runMany((int)wave.size(), par, 60.0, outPath + ".d", tmp,
                [&](int i)
                {
                  vf::Options o;
                  o.policy = vf::Policy::Prefix;
                  o.plan = wave[i].prefix;
                  return body(o, true);
                });
    auto lines = vf::readLines(tmp);
    unlink(tmp.c_str());
    std::vector<Node> nextWave;
    int idx = 0;
    for (auto &ln : lines)
    {
      if (ln.rfind("#S", 0) == 0)
      {
        auto w = vf::words(ln.substr(2));
        std::vector<std::string> chosen;
        std::vector<std::vector<std::string>> en;
        for (auto &e : w)
        {
          auto c = e.find(':');
          chosen.push_back(e.substr(0, c));
          std::vector<std::string> v;
          for (auto &x : vf::split(e.substr(c + 1), ','))
            if (!x.empty()) v.push_back(x);
          en.push_back(v);
        }
        const Node &nd = wave[idx];
        int pre = 0;
        for (size_t k = 0; k < chosen.size(); ++k)
        {
          bool prevEnabled = false;
          if (k > 0)
            for (auto &x : en[k])
              if (x == chosen[k - 1]) prevEnabled = true;
          if (k >= nd.prefix.size())
          {
            for (auto &alt : en[k])
            {
              if (alt == chosen[k]) continue;
              int cost = pre + ((k > 0 && prevEnabled && alt != chosen[k - 1]) ? 1 : 0);
              if (cost > bound) continue;
              std::vector<std::string> p(chosen.begin(), chosen.begin() + k);
              p.push_back(alt);
              if (seen.insert(p).second) nextWave.push_back({p, cost});
            }
          }
          if (k > 0 && prevEnabled && chosen[k] != chosen[k - 1]) ++pre;
        }
        continue;
      }
      fprintf(out, "%s\n", ln.c_str());
      if (ln.find("\"e\":\"Reset\"") != std::string::npos) ++idx;
    }
    total += (int)wave.size();
    wave.swap(nextWave);
  }
  if (!wave.empty()) truncated = true;
  fclose(out);
  printf("executions=%d truncated=%d\n", total, truncated ? 1 : 0);
  return 0;
}

} // namespace xc
