// Extra X18: the real iora::network::dns::DnsTransport against a SCRIPTED DNS server on 127.0.0.1 (UDP sockets + TCP
// listeners owned by this driver, lock-step with the script).  Not under vf/sched: the transport's I/O threads and the
// TimerService thread block in epoll_wait (timerfd), which the scheduler cannot see; instead every oracle fact is either
// ordered by the script (the server logs SrvSend BEFORE it writes, the driver waits for a completion it caused) or is
// one-sided in time ("not earlier than", "within a generous limit").
//
//   drv_dnstransport run <cases.txt> <out.ndjson> [parallel]
//   case:  mode=U|B|T retries=<n> tmo=S|L nsrv=1|2 api=async|sync | <token> <token> ...
//     Q<q>      issue query q (queryAsync, or query() in a helper thread when api=sync); the server waits for it
//     QS<q>     issue query q on the stopped transport (no server side)
//     A<p><q>   server: well-formed answer for q over p (u = UDP, t = TCP; 'T' = TCP in three fragments)
//     N<p><q>   NXDOMAIN      WI<p><q> other id      WQ<p><q> q's id, other question      MF<p><q> unparsable, q's id
//     TR<q>     UDP response with TC=1      TF<q>  the same, then the server waits for the query to arrive over TCP
//     WS<q>     q's id + question from the other server's socket
//     W<q>      wait (15 s limit) for q's completion -> Wait{q,got,lim}  w<q>  wait at most 400 ms, not logged
//     m<q>      wait 2 s -> Wait{..,lim:2}      Tf<q>  TF with a 2 s limit   (after a response the as-is model says is dropped)
//     TO<q>     wait for q's completion by timeout -> Wait{q,got}
//     F         fence: a private query per open channel, answered in order, so that everything sent before was processed
//     ST        stop()
//   Every case ends with (F,) stop() and a drain of the server sockets (Extra events: further transmissions of a query).
//   tmo=S: config.timeout = 1.5 s (real time), armings of timeout timers are kept 300 ms apart; tmo=L: 30 s, never fires.
//   case "probe=cleanup": the pause-plan probe of the cleanup thread (see runCleanupProbe).
// Events: Begin{mode,retries,tmo,nsrv,api,probe} Query{q} QueryRet{q} SrvRecv{q,proto,ok,n,srv} SrvSend{q,proto,kind,tag}
//         Done{q,kind,tag,early,nth} Wait{q,got,lim} Fence{ok} Probe{reached} StopCall StopRet Extra{q,proto,n} End
#include "iora/network/dns/dns_transport.hpp"
#include "vf/exec.hpp"
#include "vf/trace.hpp"

#include <arpa/inet.h>
#include <netinet/in.h>
#include <netinet/tcp.h>
#include <poll.h>
#include <sys/socket.h>

using namespace iora::network::dns;

// ---- directed probe "cleanup" (X18-O5): a pause plan for the transport's cleanup thread.  The executable's own
// pthread_cond_clockwait / pthread_mutex_lock win over libc's (symbol interposition, as in vf/sched.cpp) and pass straight
// through unless the probe is armed.  The cleanup thread is the only thread of the process that waits on a condition
// variable with a deadline; after that wait timed out, the first mutex it locks is queriesMutex_ (phase 1 of
// cleanupExpiredQueries) and the next lock of the SAME mutex is phase 3: there it is held until the driver releases it.
#include <dlfcn.h>
static std::atomic<int> g_probe{0}, g_paused{0}, g_release{0};
static thread_local int t_cleanup = 0, t_woke = 0;
static thread_local pthread_mutex_t *t_first = nullptr;
typedef int (*lock_fn)(pthread_mutex_t *);
typedef int (*clockwait_fn)(pthread_cond_t *, pthread_mutex_t *, clockid_t, const struct timespec *);
static lock_fn r_lock = nullptr;
static clockwait_fn r_clockwait = nullptr;
extern "C" int pthread_cond_clockwait(pthread_cond_t *c, pthread_mutex_t *m, clockid_t clk, const struct timespec *ts)
{
  if (!r_clockwait) r_clockwait = (clockwait_fn)dlsym(RTLD_NEXT, "pthread_cond_clockwait");
  if (g_probe.load(std::memory_order_relaxed)) t_cleanup = 1;
  int rc = r_clockwait(c, m, clk, ts);
  if (t_cleanup && rc == ETIMEDOUT)
  {
    t_woke = 1;
    t_first = nullptr;
  }
  return rc;
}
extern "C" int pthread_mutex_lock(pthread_mutex_t *m)
{
  if (!r_lock) r_lock = (lock_fn)dlsym(RTLD_NEXT, "pthread_mutex_lock");
  if (t_cleanup && t_woke && g_probe.load(std::memory_order_relaxed))
  {
    if (!t_first)
      t_first = m;
    else if (m == t_first)
    {
      t_woke = 0;
      g_paused.store(1);
      while (!g_release.load()) usleep(200);
    }
  }
  return r_lock(m);
}

static double nowS()
{
  struct timespec ts;
  clock_gettime(CLOCK_MONOTONIC, &ts);
  return ts.tv_sec + ts.tv_nsec / 1e9;
}
static void sleepMs(int ms) { usleep(ms * 1000); }

static const int kShortMs = 1500;  // tmo=S
static const int kLongMs = 30000;  // tmo=L: never fires within a case
static const int kStaggerMs = 300; // tmo=S: distance kept between two armings of timeout timers (query, TCP fallback), so that
                                   // the timers fire in the order of arming with room for the script's steps in between
static const char *kNames[3] = {"fence.x.test", "q1.x.test", "q2.x.test"};

struct Server
{
  int udp = -1, lis = -1, conn = -1;
  uint16_t port = 0;
  std::vector<uint8_t> tbuf;
};
struct QInfo
{
  uint16_t id = 0;
  bool haveU = false, haveT = false;
  sockaddr_in from{};
  int srvU = -1, srvT = -1;
  int nU = 0, nT = 0;
  double t0 = 0;
};
struct Shared
{
  std::atomic<int> ndone[3];
  Shared()
  {
    for (auto &x : ndone) x = 0;
  }
};

struct Rig
{
  std::shared_ptr<vf::Trace> tr = std::make_shared<vf::Trace>();
  std::shared_ptr<Shared> sh = std::make_shared<Shared>();
  std::vector<Server> srv;
  QInfo qi[3];
  std::shared_ptr<DnsTransport> t;
  std::vector<std::thread> syncThreads;
  std::string mode = "U", api = "async";
  int retries = 0, nsrv = 1, tmoMs = kLongMs;
  int tag = 0;
  bool stopped = false;
  double lastQuery = 0, lastArm = 0;
  std::vector<uint16_t> fenceIds;

  bool openServers()
  {
    for (int s = 0; s < nsrv; ++s)
    {
      Server sv;
      for (int attempt = 0; attempt < 50 && sv.lis < 0; ++attempt)
      {
        int u = socket(AF_INET, SOCK_DGRAM, 0);
        sockaddr_in a{};
        a.sin_family = AF_INET;
        a.sin_addr.s_addr = htonl(INADDR_LOOPBACK);
        if (u < 0 || bind(u, (sockaddr *)&a, sizeof a) != 0) return false;
        socklen_t al = sizeof a;
        getsockname(u, (sockaddr *)&a, &al);
        int l = socket(AF_INET, SOCK_STREAM, 0);
        int one = 1;
        setsockopt(l, SOL_SOCKET, SO_REUSEADDR, &one, sizeof one);
        if (bind(l, (sockaddr *)&a, sizeof a) == 0 && listen(l, 8) == 0)
        {
          sv.udp = u;
          sv.lis = l;
          sv.port = ntohs(a.sin_port);
        }
        else
        {
          close(u);
          close(l);
        }
      }
      if (sv.lis < 0) return false;
      srv.push_back(sv);
    }
    return true;
  }

  // ---- wire helpers (own encoder; nothing of the library builds a response)
  static void putName(std::vector<uint8_t> &b, const std::string &n)
  {
    for (auto &lab : vf::split(n, '.'))
    {
      b.push_back((uint8_t)lab.size());
      b.insert(b.end(), lab.begin(), lab.end());
    }
    b.push_back(0);
  }
  static void put16(std::vector<uint8_t> &b, unsigned v)
  {
    b.push_back((v >> 8) & 0xff);
    b.push_back(v & 0xff);
  }
  std::vector<uint8_t> response(uint16_t id, const std::string &qname, bool tc, int rcode, bool answer, int tg)
  {
    std::vector<uint8_t> b;
    put16(b, id);
    b.push_back(0x81 | (tc ? 0x02 : 0)); // QR, RD (+TC)
    b.push_back(0x80 | (rcode & 0xf));   // RA, rcode
    put16(b, 1);
    put16(b, answer ? 1 : 0);
    put16(b, 0);
    put16(b, 1);
    putName(b, qname);
    put16(b, 1);
    put16(b, 1);
    if (answer)
    {
      put16(b, 0xC00C);
      put16(b, 1);
      put16(b, 1);
      put16(b, 0);
      put16(b, 60);
      put16(b, 4);
      b.push_back(10);
      b.push_back(0);
      b.push_back(0);
      b.push_back((uint8_t)tg);
    }
    putName(b, "tag");
    put16(b, 1);
    put16(b, 1);
    put16(b, 0);
    put16(b, 0);
    put16(b, 4);
    b.push_back(10);
    b.push_back(9);
    b.push_back(9);
    b.push_back((uint8_t)tg);
    return b;
  }
  // returns the query index of a received query (by its question name), -1 if unknown
  static int parseQuery(const uint8_t *d, size_t n, uint16_t &id)
  {
    if (n < 13) return -1;
    id = (uint16_t)((d[0] << 8) | d[1]);
    std::string name;
    size_t o = 12;
    while (o < n && d[o] != 0)
    {
      size_t l = d[o];
      if (o + 1 + l > n) return -1;
      if (!name.empty()) name += ".";
      name.append((const char *)d + o + 1, l);
      o += 1 + l;
    }
    for (int k = 0; k < 3; ++k)
      if (name == kNames[k]) return k;
    return -1;
  }
  void noteQuery(int q, uint16_t id, bool tcp, int s, const sockaddr_in *from, bool log)
  {
    QInfo &x = qi[q];
    x.id = id;
    if (tcp)
    {
      x.haveT = true;
      x.srvT = s;
      x.nT++;
    }
    else
    {
      x.haveU = true;
      x.srvU = s;
      x.nU++;
      if (from) x.from = *from;
    }
    if (q != 0 && log)
      tr->add(vf::Ev("SrvRecv").i("q", q).str("proto", tcp ? "tcp" : "udp").b("ok", true).i("n", tcp ? x.nT : x.nU).i("srv", s));
  }
  // one pass over all server sockets; returns true if a query for `want` over the wanted protocol was seen
  bool pump(int want, bool wantTcp, int waitMs, bool asExtra)
  {
    std::vector<pollfd> p;
    for (auto &s : srv)
    {
      p.push_back({s.udp, POLLIN, 0});
      p.push_back({s.lis, POLLIN, 0});
      p.push_back({s.conn >= 0 ? s.conn : -1, POLLIN, 0});
    }
    int rc = poll(p.data(), p.size(), waitMs);
    bool hit = false;
    if (rc <= 0) return false;
    for (size_t i = 0; i < srv.size(); ++i)
    {
      Server &s = srv[i];
      if (p[3 * i].revents & POLLIN)
      {
        uint8_t buf[2048];
        sockaddr_in from{};
        socklen_t fl = sizeof from;
        ssize_t n = recvfrom(s.udp, buf, sizeof buf, MSG_DONTWAIT, (sockaddr *)&from, &fl);
        uint16_t id = 0;
        int q = n > 0 ? parseQuery(buf, (size_t)n, id) : -1;
        if (q >= 0)
        {
          noteQuery(q, id, false, (int)i, &from, !asExtra);
          if (q == want && !wantTcp) hit = true;
        }
      }
      if (p[3 * i + 1].revents & POLLIN)
      {
        int c = accept(s.lis, nullptr, nullptr);
        if (c >= 0)
        {
          if (s.conn >= 0) close(s.conn); // a second connection replaces the first (not expected)
          s.conn = c;
          s.tbuf.clear();
          int one = 1;
          setsockopt(c, IPPROTO_TCP, TCP_NODELAY, &one, sizeof one);
        }
      }
      if (s.conn >= 0 && (p[3 * i + 2].revents & (POLLIN | POLLHUP)))
      {
        uint8_t buf[4096];
        ssize_t n = recv(s.conn, buf, sizeof buf, MSG_DONTWAIT);
        if (n > 0) s.tbuf.insert(s.tbuf.end(), buf, buf + n);
        if (n == 0)
        {
          close(s.conn);
          s.conn = -1;
        }
        while (s.tbuf.size() >= 2)
        {
          size_t len = (size_t)((s.tbuf[0] << 8) | s.tbuf[1]);
          if (s.tbuf.size() < 2 + len) break;
          uint16_t id = 0;
          int q = parseQuery(s.tbuf.data() + 2, len, id);
          if (q >= 0)
          {
            noteQuery(q, id, true, (int)i, nullptr, !asExtra);
            if (q == want && wantTcp) hit = true;
          }
          s.tbuf.erase(s.tbuf.begin(), s.tbuf.begin() + 2 + len);
        }
      }
    }
    return hit;
  }
  bool awaitQuery(int q, bool tcp, double limitS)
  {
    int before = tcp ? qi[q].nT : qi[q].nU;
    double end = nowS() + limitS;
    while (nowS() < end)
    {
      pump(q, tcp, 20, false);
      if ((tcp ? qi[q].nT : qi[q].nU) > before) return true;
      // the query completed meanwhile (its timer fired): the transmission is no longer due; look once more, then give up
      if (sh->ndone[q].load() > 0 && end > nowS() + 0.3) end = nowS() + 0.3;
    }
    return false;
  }
  void expectQuery(int q, bool tcp, double limitS = 15.0)
  {
    if (!awaitQuery(q, tcp, limitS))
      tr->add(vf::Ev("SrvRecv").i("q", q).str("proto", tcp ? "tcp" : "udp").b("ok", false).i("n", tcp ? qi[q].nT : qi[q].nU).i("srv", -1));
  }

  void sendUdp(int s, const sockaddr_in &to, const std::vector<uint8_t> &m) { sendto(srv[s].udp, m.data(), m.size(), 0, (const sockaddr *)&to, sizeof to); }
  void sendTcp(int s, const std::vector<uint8_t> &m, bool frag)
  {
    if (s < 0 || srv[s].conn < 0) return;
    std::vector<uint8_t> f;
    put16(f, (unsigned)m.size());
    f.insert(f.end(), m.begin(), m.end());
    if (!frag)
    {
      (void)!write(srv[s].conn, f.data(), f.size());
      return;
    }
    size_t cuts[3] = {1, 5, f.size()}; // inside the length prefix, inside the header, the rest
    size_t o = 0;
    for (size_t c : cuts)
    {
      if (c > f.size()) c = f.size();
      if (c > o) (void)!write(srv[s].conn, f.data() + o, c - o);
      o = c;
      sleepMs(3);
    }
  }

  uint16_t foreignId(uint16_t id)
  {
    for (uint16_t d = 0x0100;; d += 0x0101)
    {
      uint16_t c = (uint16_t)(id ^ d);
      bool clash = false;
      for (auto &x : qi) clash = clash || ((x.haveU || x.haveT) && x.id == c);
      for (auto f : fenceIds) clash = clash || f == c;
      if (!clash) return c;
    }
  }

  // ---- script steps
  void respond(const std::string &kind, char p, int q)
  {
    QInfo &x = qi[q];
    bool tcp = (p == 't' || p == 'T');
    int tg = ++tag;
    std::vector<uint8_t> m;
    if (kind == "ans") m = response(x.id, kNames[q], false, 0, true, tg);
    if (kind == "nx") m = response(x.id, kNames[q], false, 3, false, tg);
    if (kind == "trunc") m = response(x.id, kNames[q], true, 0, false, tg);
    if (kind == "wrongid") m = response(foreignId(x.id), kNames[q], false, 0, true, tg);
    if (kind == "wrongq") m = response(x.id, "other.x.test", false, 0, true, tg);
    if (kind == "otherserver") m = response(x.id, kNames[q], false, 0, true, tg);
    if (kind == "malformed")
    {
      m = response(x.id, kNames[q], false, 0, true, tg);
      m.resize(m.size() - 20); // announces an answer and an additional record, ends inside the answer's rdata
    }
    tr->add(vf::Ev("SrvSend").i("q", q).str("proto", tcp ? "tcp" : "udp").str("kind", kind).i("tag", tg));
    if (kind == "otherserver")
    {
      if (nsrv > 1 && x.haveU) sendUdp(1 - x.srvU, x.from, m);
    }
    else if (tcp)
      sendTcp(x.srvT, m, p == 'T');
    else if (x.haveU)
      sendUdp(x.srvU, x.from, m);
  }

  void complete(int q, const DnsResult &r, const std::exception_ptr &e, double t0)
  {
    std::string kind = "other";
    int tg = 0;
    if (!e)
    {
      kind = r.header.rcode == DnsResponseCode::NXDOMAIN ? "nx" : r.isTruncated() ? "trunc" : r.header.rcode == DnsResponseCode::NOERROR ? "ans" : "other";
      if (!r.additional.empty() && r.additional[0].rdata.size() == 4) tg = r.additional[0].rdata[3];
      if (kind == "ans" && !(r.answers.size() == 1 && r.answers[0].rdata.size() == 4 && r.answers[0].rdata[3] == tg)) kind = "other"; // payload intact
    }
    else
    {
      try
      {
        std::rethrow_exception(e);
      }
      catch (const DnsTimeoutException &)
      {
        kind = "timeout";
      }
      catch (const DnsParseException &)
      {
        kind = "parse";
      }
      catch (const DnsTransportException &x)
      {
        std::string w = x.what();
        kind = w.find("stopped") != std::string::npos ? "stopped" : w.find("not running") != std::string::npos ? "notrunning" : "other";
      }
      catch (...)
      {
        kind = "other";
      }
    }
    bool early = kind == "timeout" && (nowS() - t0) * 1000.0 < (double)tmoMs - 1.0; // t0 precedes the arming of the timer
    int nth = sh->ndone[q].fetch_add(1) + 1;
    if (q != 0) tr->add(vf::Ev("Done").i("q", q).str("kind", kind).i("tag", tg).i("early", early ? 1 : 0).i("nth", nth));
  }

  // tmo=S: keep the armings of timeout timers apart, so that "q1 timed out, q2 still pending" is a state
  void stagger(int q)
  {
    if (q == 0 || tmoMs != kShortMs || stopped) return;
    bool otherPending = false;
    for (int k = 1; k < 3; ++k) otherPending = otherPending || (k != q && qi[k].t0 > 0 && sh->ndone[k].load() == 0);
    if (otherPending && (nowS() - lastArm) * 1000 < kStaggerMs) sleepMs(kStaggerMs - (int)((nowS() - lastArm) * 1000));
    lastArm = nowS();
  }
  void issue(int q, const std::string &server = "", uint16_t port = 0)
  {
    stagger(q);
    double t0 = nowS();
    qi[q].t0 = t0;
    if (q != 0)
    {
      lastQuery = t0;
      tr->add(vf::Ev("Query").i("q", q));
    }
    DnsQuestion question(kNames[q], DnsType::A, DnsClass::IN);
    auto self = this;
    if (api == "async" || q == 0)
    {
      try
      {
        t->queryAsync(question, [self, q, t0](const DnsResult &r, const std::exception_ptr &e) { self->complete(q, r, e, t0); }, server, port);
      }
      catch (const std::exception &x)
      {
        tr->add(vf::Ev("Threw").i("q", q).str("what", std::string(x.what()).substr(0, 80)));
      }
    }
    else
    {
      auto tt = t;
      syncThreads.emplace_back(
        [self, tt, q, t0, question]()
        {
          try
          {
            DnsResult r = tt->query(question);
            self->complete(q, r, nullptr, t0);
          }
          catch (...)
          {
            self->complete(q, DnsResult{}, std::current_exception(), t0);
          }
        });
    }
    if (q != 0) tr->add(vf::Ev("QueryRet").i("q", q));
  }
  bool waitDone(int q, double limitS, int atLeast = 1)
  {
    double end = nowS() + limitS;
    while (sh->ndone[q].load() < atLeast)
    {
      if (nowS() > end) return false;
      pump(-1, false, 1, false); // keep accepting / reading so that nothing backs up
    }
    return true;
  }
  // a private query through every channel the transport has open to a server; answered in order => all earlier
  // datagrams / segments on that channel were processed by the transport's I/O thread
  bool fenceOne(int s, bool viaTcp)
  {
    int base = sh->ndone[0].load();
    int nU = qi[0].nU, nT = qi[0].nT;
    issue(0, "127.0.0.1", srv[s].port);
    bool firstTcp = mode == "T";
    double end = nowS() + 3.0;
    while (nowS() < end && (firstTcp ? qi[0].nT == nT : qi[0].nU == nU)) pump(0, firstTcp, 10, false);
    if (firstTcp ? qi[0].nT == nT : qi[0].nU == nU) return false;
    fenceIds.push_back(qi[0].id);
    if (!firstTcp && viaTcp)
    {
      sendUdp(s, qi[0].from, response(qi[0].id, kNames[0], true, 0, false, 0));
      while (nowS() < end && qi[0].nT == nT) pump(0, true, 10, false);
      if (qi[0].nT == nT) return false;
    }
    std::vector<uint8_t> m = response(qi[0].id, kNames[0], false, 0, true, 0);
    if (firstTcp || viaTcp)
      sendTcp(s, m, false);
    else
      sendUdp(s, qi[0].from, m);
    return waitDone(0, 3.0, base + 1);
  }
  void fence()
  {
    if (stopped) return;
    bool ok = true;
    for (int s = 0; s < nsrv; ++s)
    {
      bool udpUsed = false, tcpUsed = srv[s].conn >= 0;
      for (auto &x : qi) udpUsed = udpUsed || (x.haveU && x.srvU == s);
      if (mode != "T" && udpUsed) ok = fenceOne(s, false) && ok;
      if (tcpUsed && (mode == "T" || mode == "B")) ok = fenceOne(s, true) && ok;
    }
    tr->add(vf::Ev("Fence").b("ok", ok));
  }
  void stop()
  {
    if (stopped) return;
    tr->add(vf::Ev("StopCall"));
    t->stop();
    tr->add(vf::Ev("StopRet"));
    stopped = true;
  }
};

// probe=cleanup: q2's completion callback keeps the timer thread busy (a slow user callback), so q1's timeout timer is late
// when the cleanup thread wakes 10 s after start(): phase 1 collects q1 (expired, retries exhausted), the cleanup thread is
// held before phase 3, the server answers q1 (the I/O thread completes it), the cleanup thread goes on: phase 4.
static std::string runCleanupProbe()
{
  Rig r;
  r.mode = "U";
  r.tmoMs = 1000;
  r.tr->add(vf::Ev("Begin").str("mode", "U").i("retries", 0).str("tmo", "P").i("nsrv", 1).str("api", "async").i("probe", 1));
  if (!r.openServers()) return "{\"e\":\"DriverError\",\"what\":\"bind\"}\n";
  DnsConfig cfg(std::vector<std::string>{"127.0.0.1"}, r.srv[0].port);
  cfg.timeout = std::chrono::milliseconds(r.tmoMs);
  cfg.retryCount = 0;
  cfg.transportMode = DnsTransportMode::UDP;
  r.t = std::make_shared<DnsTransport>(cfg);
  g_probe.store(1);
  double T0 = nowS();
  r.t->start();
  auto gateB = std::make_shared<std::atomic<int>>(0);
  auto sleepUntil = [&](double t)
  {
    while (nowS() < t) r.pump(-1, false, 5, false);
  };
  sleepUntil(T0 + 8.3);
  {
    double t0 = nowS();
    r.qi[2].t0 = t0;
    r.tr->add(vf::Ev("Query").i("q", 2));
    Rig *self = &r;
    r.t->queryAsync(DnsQuestion(kNames[2], DnsType::A, DnsClass::IN),
                    [self, t0, gateB](const DnsResult &res, const std::exception_ptr &e)
                    {
                      self->complete(2, res, e, t0);
                      while (!gateB->load()) usleep(500); // the slow callback
                    });
    r.tr->add(vf::Ev("QueryRet").i("q", 2));
    r.expectQuery(2, false);
  }
  sleepUntil(T0 + 8.6);
  r.issue(1);
  r.expectQuery(1, false);
  double lim = T0 + 14.0;
  while (!g_paused.load() && nowS() < lim) r.pump(-1, false, 5, false);
  bool reached = g_paused.load() != 0 && r.sh->ndone[1].load() == 0;
  r.tr->add(vf::Ev("Probe").b("reached", reached));
  if (reached)
  {
    r.respond("ans", 'u', 1);
    r.tr->add(vf::Ev("Wait").i("q", 1).b("got", r.waitDone(1, 3.0)).i("lim", 2));
  }
  g_release.store(1);
  sleepUntil(nowS() + 0.4);
  gateB->store(1);
  sleepUntil(nowS() + 0.3);
  g_probe.store(0);
  r.stop();
  r.t.reset();
  r.tr->add(vf::Ev("End"));
  return r.tr->text();
}

static std::string runOne(const std::string &line)
{
  if (line.find("probe=cleanup") != std::string::npos) return runCleanupProbe();
  auto parts = vf::split(line, '|');
  Rig r;
  for (auto &kv : vf::words(parts[0]))
  {
    auto eq = kv.find('=');
    std::string k = kv.substr(0, eq), v = kv.substr(eq + 1);
    if (k == "mode") r.mode = v;
    if (k == "retries") r.retries = atoi(v.c_str());
    if (k == "tmo") r.tmoMs = v == "S" ? kShortMs : kLongMs;
    if (k == "nsrv") r.nsrv = atoi(v.c_str());
    if (k == "api") r.api = v;
  }
  r.tr->add(vf::Ev("Begin").str("mode", r.mode).i("retries", r.retries).str("tmo", r.tmoMs == kShortMs ? "S" : "L").i("nsrv", r.nsrv).str("api", r.api).i("probe", 0));
  if (!r.openServers())
  {
    r.tr->add(vf::Ev("DriverError").str("what", "bind"));
    return r.tr->text();
  }
  DnsConfig cfg(std::vector<std::string>{"127.0.0.1"}, 1);
  cfg.servers.clear();
  for (auto &s : r.srv) cfg.servers.emplace_back("127.0.0.1", s.port);
  cfg.timeout = std::chrono::milliseconds(r.tmoMs);
  cfg.retryCount = r.retries;
  cfg.transportMode = r.mode == "U" ? DnsTransportMode::UDP : r.mode == "T" ? DnsTransportMode::TCP : DnsTransportMode::Both;
  cfg.enableCache = false;
  r.t = std::make_shared<DnsTransport>(cfg);
  try
  {
    r.t->start();
  }
  catch (const std::exception &e)
  {
    r.tr->add(vf::Ev("DriverError").str("what", std::string("start: ") + e.what()));
    return r.tr->text();
  }
  for (auto &tok : vf::words(parts.size() > 1 ? parts[1] : ""))
  {
    int q = tok.back() - '0';
    std::string op = tok.substr(0, tok.size() - 1);
    if (tok == "F")
      r.fence();
    else if (tok == "ST")
    {
      r.stop();
    }
    else if (op == "Q")
    {
      r.issue(q);
      r.expectQuery(q, r.mode == "T");
    }
    else if (op == "QS")
      r.issue(q);
    else if (op == "W" || op == "TO")
      r.tr->add(vf::Ev("Wait").i("q", q).b("got", r.waitDone(q, 15.0)).i("lim", 15));
    else if (op == "m")
      r.tr->add(vf::Ev("Wait").i("q", q).b("got", r.waitDone(q, 2.0)).i("lim", 2));
    else if (op == "Tf")
    {
      r.respond("trunc", 'u', q);
      r.expectQuery(q, true, 2.0);
    }
    else if (op == "w")
      r.waitDone(q, 0.4);
    else if (op == "TR")
      r.respond("trunc", 'u', q);
    else if (op == "TF")
    {
      r.stagger(q); // the fallback re-arms q's timer
      r.lastQuery = nowS();
      r.respond("trunc", 'u', q);
      r.expectQuery(q, true);
    }
    else if (op == "WS")
      r.respond("otherserver", 'u', q);
    else if (op.size() == 2 || op.size() == 3)
    {
      char p = op.back();
      std::string k = op.substr(0, op.size() - 1);
      r.respond(k == "A" ? "ans" : k == "N" ? "nx" : k == "WI" ? "wrongid" : k == "WQ" ? "wrongq" : "malformed", p, q);
    }
  }
  if (!r.stopped)
  {
    r.fence();
    // tmo=S: let every timer that is still armed fire before the transport is stopped (a timer that was not cancelled,
    // or a completion that did not erase the query, shows as a second completion)
    if (r.tmoMs == kShortMs && r.lastQuery > 0)
    {
      double until = r.lastQuery + (kShortMs + 200) / 1000.0;
      while (nowS() < until) r.pump(-1, false, 10, false);
    }
    r.stop();
  }
  for (auto &th : r.syncThreads) th.join();
  // transmissions nobody waited for (retries): drain what the kernel still holds
  int nU[3], nT[3];
  for (int k = 0; k < 3; ++k) nU[k] = r.qi[k].nU, nT[k] = r.qi[k].nT;
  for (int i = 0; i < 5; ++i) r.pump(-1, false, 10, true);
  for (int k = 1; k < 3; ++k)
  {
    if (r.qi[k].nU > nU[k]) r.tr->add(vf::Ev("Extra").i("q", k).str("proto", "udp").i("n", r.qi[k].nU));
    if (r.qi[k].nT > nT[k]) r.tr->add(vf::Ev("Extra").i("q", k).str("proto", "tcp").i("n", r.qi[k].nT));
  }
  sleepMs(30);
  r.t.reset();
  r.tr->add(vf::Ev("End"));
  for (auto &s : r.srv)
  {
    close(s.udp);
    close(s.lis);
    if (s.conn >= 0) close(s.conn);
  }
  return r.tr->text();
}

int main(int argc, char **argv)
{
  iora::core::Logger::setLevel(iora::core::Logger::Level::Fatal);
  if (argc < 4 || std::string(argv[1]) != "run") return 2;
  auto lines = vf::readLines(argv[2]);
  int par = argc > 4 ? atoi(argv[4]) : 12;
  auto res = vf::runMany((int)lines.size(), par, 120.0, std::string(argv[3]) + ".d", argv[3], [&](int i) { return runOne(lines[i]); });
  printf("executions=%d crashed=%d timedout=%d\n", res.executions, res.crashed, res.timedOut);
  return 0;
}
