#include "iora/core/timer.hpp"
#include <cstdio>
#include <unistd.h>
using namespace iora::core; using namespace std::chrono;
int main(){
  TimerService svc;
  std::atomic<bool> aStarted{false}, gate{false}; std::atomic<int> pRuns{0}; std::atomic<long long> cancelAt{0}, pStart{0};
  auto nowns=[]{ return duration_cast<nanoseconds>(steady_clock::now().time_since_epoch()).count(); };
  svc.scheduleAfter(milliseconds(5),  [&]{ usleep(60000); });                       // Z: keeps the loop thread busy so A and P are collected together
  svc.scheduleAfter(milliseconds(20), [&]{ aStarted=true; while(!gate) usleep(500); }); // A: first of the batch, blocks on the gate
  auto pid = svc.schedulePeriodic(milliseconds(25), [&]{ if(pRuns++==0) pStart = nowns(); });  // P: already collected, not yet started
  while(!aStarted) usleep(500);
  bool ok = svc.cancel(pid); cancelAt = nowns();
  usleep(20000); gate = true; usleep(100000);
  printf("cancel(periodic) returned %s; handler runs=%d; first handler start %s cancel returned\n", ok?"true":"false", pRuns.load(), pStart.load()>cancelAt.load()? "AFTER":"before");
  if (ok && pRuns>0 && pStart>cancelAt) printf("VIOLATION: cancel reported success but the old schedule's handler started afterwards\n");
  fflush(stdout);
}
