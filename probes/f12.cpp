// probe F-12a: expireAt/persist on an expired-but-not-yet-evicted key resurrects it
#include "iora/storage/kvstore.hpp"
#include <cstdio>
#include <filesystem>
#include <thread>
using namespace iora::storage; using namespace std::chrono;
int main(){
  namespace fs = std::filesystem; fs::remove_all("/verif/build/probe_kv12"); fs::create_directories("/verif/build/probe_kv12");
  KVStoreConfig c; c.enableBackgroundCompaction=false; c.ttlTickDuration = milliseconds(60000); c.ttlTicksPerWheel = 4; c.ttlNumWheels = 2;   // eviction worker will not run during the probe
  KVStore s("/verif/build/probe_kv12/db", c);
  auto show=[&](const char* when){ printf("%-34s get=%s exists=%d size=%zu\n", when, s.getString("k").value_or("<none>").c_str(), (int)s.exists("k"), s.size()); };
  s.setString("k","v"); s.expireAt("k", system_clock::now() + milliseconds(50)); show("after expireAt(now+50ms):");
  std::this_thread::sleep_for(milliseconds(120)); show("120 ms later (expired):");
  s.persist("k"); show("after persist(k) on expired key:");
  s.expireAt("k", system_clock::now() + milliseconds(50)); std::this_thread::sleep_for(milliseconds(120)); show("expired again:");
  s.expireAt("k", system_clock::now() + seconds(100)); show("after expireAt(k, +100s) on expired:");
}
