CONSTANTS Chunks <- ChunksDef
 Cap = 3
 BufLens = {1,2,3}
 MaxRecv = 5
 DropAfterOverflow = TRUE
SPECIFICATION Spec
INVARIANT AbsOk
CHECK_DEADLOCK FALSE
