#include <chrono>
#include <atomic>
struct VClock { using duration=std::chrono::nanoseconds; using rep=duration::rep; using period=duration::period; using time_point=std::chrono::time_point<VClock>; static constexpr bool is_steady=true;
  static std::atomic<long long> ns; static time_point now(){ return time_point(duration(ns.load())); } };
std::atomic<long long> VClock::ns{1000000000LL};
#include "iora/core/timing_wheel.hpp"
#include <cstdio>
using namespace std::chrono; using iora::core::TimingWheel;
int main(){
  const auto TICK = hours(1); const long long T = duration_cast<nanoseconds>(TICK).count();
  for (int levels = 1; levels <= 2; ++levels) {
    TimingWheel w(duration_cast<milliseconds>(TICK), 4, levels); w.start();
    long long t0 = VClock::ns; long long fired = -1;
    w.schedule(duration_cast<milliseconds>(TICK*6), [&]{ fired = VClock::ns; });      // 6 ticks on a 4-slot wheel
    for (int i = 0; i < 12 && fired < 0; ++i) { VClock::ns += T; w.advance(); }       // punctual ticking, no drift
    printf("numWheels=%d ticksPerWheel=4: 6-tick timer fired after %.1f ticks %s\n", levels, double(fired - t0)/T, (fired - t0) < 5*T ? "=> EARLY by more than one tick" : "(ok)");
    w.stop();
  }
}
