#include "mock.hpp"
#include <cstdio>
int main(){
  auto eng = std::make_unique<MockEngine>(); MockEngine* e = eng.get();
  auto t = test::TransportEngineInjector::withEngine(std::move(eng), TransportConfig{});
  std::vector<std::string> log; std::mutex lm;
  t->onConnect([&](SessionId s, const TransportAddress&){ std::lock_guard<std::mutex> g(lm); log.push_back("GLOBAL onConnect sid="+std::to_string(s)); });
  t->onClose([&](SessionId s, const TransportErrorInfo&){ std::lock_guard<std::mutex> g(lm); log.push_back("GLOBAL onClose sid="+std::to_string(s)); });
  t->start();
  // engine never completes the connect; when connectSync's timeout path calls engine->close(sid) (syncMutex released),
  // the handshake completes "just now": I/O thread fires onConnect(sid) and then, processing the Close, onClose(sid).
  e->onCloseCmd = [e](SessionId s){ e->postSync([e,s]{ e->cbs.onConnect(s, TransportAddress{"127.0.0.1",1}); }); e->post([e,s]{ e->cbs.onClose(s, TransportErrorInfo{TransportError::Unknown,"closed by app"}); }); };
  auto r = t->connectSync("127.0.0.1", 1, TlsMode::None, std::chrono::milliseconds(30));
  e->postSync([]{});
  printf("connectSync -> %s\n", r.isOk()? "ok":"err(timeout)");
  for(auto&s:log) printf("  %s\n", s.c_str());
  printf("%s\n", log.empty()? "no global callback (property holds)":"VIOLATION: global callback for a sid never handed to the caller");
  t->stop();
}
