#include "mock.hpp"
#include <cstdio>
int main(){
  auto eng = std::make_unique<MockEngine>(); MockEngine* e = eng.get();
  TransportConfig cfg; cfg.maxSyncReceiveBuffer = 8;
  auto t = test::TransportEngineInjector::withEngine(std::move(eng), cfg);
  t->start();
  SessionId sid = 7;
  e->postSync([&]{ e->cbs.onConnect(sid, TransportAddress{"x",1}); });
  t->setReadMode(sid, ReadMode::Sync);
  auto data=[&](const char* s){ e->postSync([&,s]{ e->cbs.onData(sid, iora::core::BufferView{(const std::uint8_t*)s, strlen(s)}, std::chrono::steady_clock::now()); }); };
  auto recv=[&](){ char b[64]; std::size_t n=sizeof b; auto r=t->receiveSync(sid,b,n,std::chrono::milliseconds(50)); if(r.isOk()) printf("  receiveSync -> \"%.*s\"\n",(int)n,b); else printf("  receiveSync -> ERR code=%d (%s)\n",(int)r.error().code, r.error().message.c_str()); };
  data("AAAAAA");      // 6 bytes buffered
  data("BBBB");        // 6+4 > 8 -> overflow flag, chunk dropped
  recv();              // returns AAAAAA
  data("CC");          // arrives after the gap; fits -> appended?
  recv();              // property: must be BufferOverflow (sticky), never bytes after the gap
  recv();
  t->stop();
}
