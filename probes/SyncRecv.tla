---- MODULE SyncRecv ----
\* scratch calibration of the Impl/Abs split for C03 (one session, Sync mode, one reader, I/O thread)
EXTENDS Integers, Sequences, FiniteSets, TLC
CONSTANTS Chunks,        \* sequence of chunk lengths arriving from the engine, e.g. <<2,2,1>>
          Cap,           \* maxSyncReceiveBuffer
          BufLens,       \* reader buffer sizes to choose from, e.g. {1,2}
          MaxRecv,       \* number of receiveSync calls
          DropAfterOverflow  \* FALSE = the code as it is; TRUE = the fix
VARIABLES nextChunk, arrived, buf, hasOverflow, closed,     \* Impl: I/O side + SyncReceiveBuffer
          rpc, rlen, calls, parked, wake,                    \* Impl: reader thread
          cur, ovfAt, closeAt, bad, last                      \* Abs ghost: consumption cursor, first gap, close position
vars == <<nextChunk, arrived, buf, hasOverflow, closed, rpc, rlen, calls, parked, wake, cur, ovfAt, closeAt, bad, last>>
Ids(from, n) == [i \in 1..n |-> from + i]           \* byte ids are consecutive naturals in arrival order
Init == /\ nextChunk = 1 /\ arrived = 0 /\ buf = <<>> /\ hasOverflow = FALSE /\ closed = FALSE
        /\ rpc = "idle" /\ rlen = 0 /\ calls = 0 /\ parked = FALSE /\ wake = FALSE
        /\ cur = 0 /\ ovfAt = -1 /\ closeAt = -1 /\ bad = FALSE /\ last = [a |-> "init"]
\* ---------------- I/O thread (runs under syncMutex for the whole handler) ----------------
OnData == /\ nextChunk <= Len(Chunks) /\ ~closed
          /\ LET n == Chunks[nextChunk] IN
             /\ nextChunk' = nextChunk + 1 /\ arrived' = arrived + n
             /\ IF (DropAfterOverflow /\ hasOverflow) THEN UNCHANGED <<buf, hasOverflow, ovfAt>> /\ wake' = wake
                ELSE IF Len(buf) + n > Cap
                     THEN /\ hasOverflow' = TRUE /\ UNCHANGED buf /\ ovfAt' = (IF ovfAt < 0 THEN arrived ELSE ovfAt) /\ wake' = (wake \/ parked)
                     ELSE /\ buf' = buf \o Ids(arrived, n) /\ UNCHANGED <<hasOverflow, ovfAt>> /\ wake' = (wake \/ parked)
          /\ UNCHANGED <<closed, rpc, rlen, calls, parked, cur, closeAt, bad>> /\ last' = [a |-> "onData"]
OnClose == /\ ~closed /\ closed' = TRUE /\ closeAt' = arrived /\ wake' = (wake \/ parked)
           /\ UNCHANGED <<nextChunk, arrived, buf, hasOverflow, rpc, rlen, calls, parked, cur, ovfAt, bad>> /\ last' = [a |-> "onClose"]
\* ---------------- reader thread: receiveSync(len) ----------------
Pred == buf # <<>> \/ closed \/ hasOverflow
RecvEnter == /\ rpc = "idle" /\ calls < MaxRecv /\ \E l \in BufLens : rlen' = l
             /\ calls' = calls + 1 /\ rpc' = "locked"
             /\ UNCHANGED <<nextChunk, arrived, buf, hasOverflow, closed, parked, wake, cur, ovfAt, closeAt, bad>> /\ last' = [a |-> "recvEnter"]
RecvPark == /\ rpc = "locked" /\ ~Pred /\ parked' = TRUE /\ wake' = FALSE /\ rpc' = "parked"
            /\ UNCHANGED <<nextChunk, arrived, buf, hasOverflow, closed, rlen, calls, cur, ovfAt, closeAt, bad>> /\ last' = [a |-> "park"]
RecvWake == /\ rpc = "parked" /\ wake /\ parked' = FALSE /\ wake' = FALSE /\ rpc' = "locked"
            /\ UNCHANGED <<nextChunk, arrived, buf, hasOverflow, closed, rlen, calls, cur, ovfAt, closeAt, bad>> /\ last' = [a |-> "wake"]
RecvTimeout == /\ rpc = "parked" /\ ~Pred /\ parked' = FALSE /\ wake' = FALSE /\ rpc' = "idle"
            /\ UNCHANGED <<nextChunk, arrived, buf, hasOverflow, closed, rlen, calls, cur, ovfAt, closeAt, bad>> /\ last' = [a |-> "ret", r |-> "Timeout"]
\* Abs judgement of a delivery of byte ids `bs`
DeliverOk(bs) == /\ bs = Ids(cur, Len(bs))                      \* next bytes in arrival order... (ids are consecutive)
                 /\ (ovfAt >= 0 => cur + Len(bs) <= ovfAt)      \* ...and nothing from after the first gap
RecvDrain == /\ rpc = "locked" /\ buf # <<>>
             /\ LET n == IF rlen < Len(buf) THEN rlen ELSE Len(buf)  bs == SubSeq(buf, 1, n) IN
                /\ buf' = SubSeq(buf, n + 1, Len(buf))
                /\ bad' = (bad \/ ~DeliverOk(bs)) /\ cur' = Head(bs) + n - 1 + 0 * cur   \* cursor follows what was actually handed out
                /\ last' = [a |-> "ret", r |-> "Ok", bytes |-> bs]
             /\ rpc' = "idle" /\ UNCHANGED <<nextChunk, arrived, hasOverflow, closed, rlen, calls, parked, wake, ovfAt, closeAt>>
RecvOverflow == /\ rpc = "locked" /\ buf = <<>> /\ hasOverflow /\ rpc' = "idle"
             /\ bad' = (bad \/ cur # ovfAt)                     \* error only after exactly the pre-overflow bytes
             /\ UNCHANGED <<nextChunk, arrived, buf, hasOverflow, closed, rlen, calls, parked, wake, cur, ovfAt, closeAt>> /\ last' = [a |-> "ret", r |-> "BufferOverflow"]
RecvClosed == /\ rpc = "locked" /\ buf = <<>> /\ ~hasOverflow /\ closed /\ rpc' = "idle"
             /\ bad' = (bad \/ cur # closeAt)                   \* PeerClosed only after everything before the close
             /\ UNCHANGED <<nextChunk, arrived, buf, hasOverflow, closed, rlen, calls, parked, wake, cur, ovfAt, closeAt>> /\ last' = [a |-> "ret", r |-> "PeerClosed"]
Next == OnData \/ OnClose \/ RecvEnter \/ RecvPark \/ RecvWake \/ RecvTimeout \/ RecvDrain \/ RecvOverflow \/ RecvClosed
Spec == Init /\ [][Next]_vars
AbsOk == ~bad
====
