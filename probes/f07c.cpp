// probe F-07c: server with verifyPeer (client certificate "required") admits a client that presents NO certificate
#include "iora/network/transport.hpp"
#include "iora/network/transport_impl.hpp"
#include <cstdio>
#include <thread>
using namespace iora::network;
int main(){
  const std::string cert = "/repo/tests/tls-certs/test_tls_cert.pem", key = "/repo/tests/tls-certs/test_tls_key.pem";
  TransportConfig sc; sc.serverTls.enabled = true; sc.serverTls.defaultMode = TlsMode::Server; sc.serverTls.certFile = cert; sc.serverTls.keyFile = key;
  sc.serverTls.verifyPeer = true; sc.serverTls.caFile = cert;            // "require client certificates", trust anchor = the self-signed test cert
  auto srv = Transport::tcp(sc); std::string got; std::mutex m;
  srv->onData([&](SessionId, iora::core::BufferView d, std::chrono::steady_clock::time_point){ std::lock_guard<std::mutex> g(m); got.append((const char*)d.data(), d.size()); });
  if (srv->start().isErr()) { printf("server start failed: %s\n", srv->lastError().message.c_str()); return 1; }
  auto lr = srv->addListener("127.0.0.1", 0, TlsMode::Server); auto la = srv->getListenerAddress(lr.value());
  TransportConfig cc; cc.clientTls.enabled = true; cc.clientTls.defaultMode = TlsMode::Client; cc.clientTls.verifyPeer = false;   // client presents NO certificate
  auto cli = Transport::tcp(cc); cli->start();
  auto r = cli->connectSync("127.0.0.1", la.port, TlsMode::Client, std::chrono::milliseconds(2000));
  printf("client without certificate: connectSync -> %s\n", r.isOk()? "ok":"error");
  if (r.isOk()) { cli->send(r.value(), "hello-from-anonymous", 20); std::this_thread::sleep_for(std::chrono::milliseconds(300)); std::lock_guard<std::mutex> g(m);
    printf("server application received: \"%s\"  %s\n", got.c_str(), got.empty()? "(nothing: client was not admitted)":"VIOLATION: admitted without a client certificate"); }
  fflush(stdout); cli->stop(); srv->stop();
}
