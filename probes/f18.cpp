#include "iora/network/websocket_frame.hpp"
#include "iora/parsers/json.hpp"
#include <cstdio>
using namespace iora;
int main(){
  { std::vector<std::uint8_t> b = {0x82, 0x7F, 0xFF,0xFF,0xFF,0xFF,0xFF,0xFF,0xFF,0xFF, 0x00}; std::size_t c=0;
    try { auto f = network::WebSocketFrame::parse(core::BufferView{b.data(), b.size()}, c); printf("ws parse: %s consumed=%zu\n", f? "frame":"incomplete", c); }
    catch (const std::exception& e) { printf("ws parse THROWS: %s\n", e.what()); } }
  auto j=[&](const char* t){ auto r = parsers::Json::parse(std::string_view(t)); if(r.ok) printf("json %-22s -> ok   dump=%s\n", t, r.value.dump().c_str()); else printf("json %-22s -> ERR at offset %zu (len %zu): %s\n", t, r.error.where.offset, strlen(t), r.error.message.c_str()); };
  j("\"\\u0041\""); j("\"\\ud83d\\ude00\""); j("\"\\u12"); j("\"a\tb\""); j("[1,\v2]"); j("1e-7"); j("0.1"); j("[0.30000000000000004]");
  parsers::Json d(1e-7); printf("dump(1e-7)=%s  dump(1/3)=%s dump(\"\\x01\")=%s\n", d.dump().c_str(), parsers::Json(1.0/3).dump().c_str(), parsers::Json(std::string("\x01")).dump().c_str());
}
