// probe F-10b: build with -fsanitize=thread; TSan reports tryPush (slot write) vs tryPop (slot read)
#include "iora/core/ring_buffer.hpp"
#include <thread>
#include <cstdio>
int main(){
  iora::core::RingBuffer<long, 4> rb;
  const long N = 200000;
  std::thread p([&]{ for(long i=0;i<N;){ if(rb.tryPush(i)) ++i; } });
  long sum=0; std::thread c([&]{ long v; for(long i=0;i<N;){ if(rb.tryPop(v)){ sum+=v; ++i; } } });
  p.join(); c.join(); printf("sum=%ld\n", sum);
}
