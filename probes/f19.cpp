#include "iora/network/dns/dns_cache.hpp"
#include <cstdio>
#include <unistd.h>
using namespace iora::network;
int main(){
  dns::DnsCache cache; dns::DnsQuestion q; q.qname="Example.COM"; q.qtype=dns::DnsType::A; q.qclass=dns::DnsClass::IN;
  dns::DnsResult r; dns::DnsResourceRecord rr; rr.name="example.com"; rr.ttl=0; r.answers.push_back(rr);
  cache.put(q, r); dns::DnsResult out; dns::DnsQuestion q2=q; q2.qname="example.com";
  sleep(1);
  printf("DnsCache: put with min TTL 0, get 1s later -> %s\n", cache.get(q2,out)? "HIT (served although its TTL elapsed)":"miss"); fflush(stdout); _exit(0);
}
