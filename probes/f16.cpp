#include "iora/network/http_server.hpp"
#include <arpa/inet.h>
#include <sys/socket.h>
#include <unistd.h>
#include <cstdio>
using namespace iora::network;
static int freePort(){ int s=socket(AF_INET,SOCK_STREAM,0); sockaddr_in a{}; a.sin_family=AF_INET; a.sin_addr.s_addr=inet_addr("127.0.0.1"); bind(s,(sockaddr*)&a,sizeof a); socklen_t l=sizeof a; getsockname(s,(sockaddr*)&a,&l); close(s); return ntohs(a.sin_port); }
static std::string xfer(int port, const std::string& req, int ms){ int c=socket(AF_INET,SOCK_STREAM,0); sockaddr_in a{}; a.sin_family=AF_INET; a.sin_addr.s_addr=inet_addr("127.0.0.1"); a.sin_port=htons(port); connect(c,(sockaddr*)&a,sizeof a); send(c,req.data(),req.size(),0);
  timeval tv{ms/1000, (ms%1000)*1000}; setsockopt(c,SOL_SOCKET,SO_RCVTIMEO,&tv,sizeof tv); std::string out; char b[4096]; for(;;){ ssize_t n=recv(c,b,sizeof b,0); if(n<=0) break; out.append(b,n);} close(c); return out; }
int main(){
  iora::core::Logger::setLevel(iora::core::Logger::Level::Error);
  int port = freePort(); HttpServer srv("127.0.0.1", port); std::string seenBody;
  srv.onGet("/slow", [](const HttpServer::Request&, HttpServer::Response& r){ usleep(300000); r.set_content("SLOW","text/plain"); });
  srv.onGet("/fast", [](const HttpServer::Request&, HttpServer::Response& r){ r.set_content("FAST","text/plain"); });
  srv.onPost("/echo", [&](const HttpServer::Request& q, HttpServer::Response& r){ seenBody=q.body; r.set_content("ok","text/plain"); });
  srv.start(); usleep(100000);
  std::string out = xfer(port, "GET /slow HTTP/1.1\r\nHost: x\r\n\r\nGET /fast HTTP/1.1\r\nHost: x\r\n\r\n", 800);
  size_t ps=out.find("SLOW"), pf=out.find("FAST");
  printf("pipelined GET /slow, GET /fast -> first body on the wire: %s  %s\n", (pf<ps)?"FAST":"SLOW", (pf<ps)?"VIOLATION: responses not in request order":"(in order)");
  xfer(port, "POST /echo HTTP/1.1\r\nHost: x\r\nTransfer-Encoding: chunked\r\n\r\n5\r\nhello\r\n0\r\n\r\n", 300);
  printf("chunked POST body \"hello\": handler saw body = \""); for(char ch: seenBody){ if(ch=='\r') printf("\\r"); else if(ch=='\n') printf("\\n"); else putchar(ch);} printf("\"\n");
  std::string o3 = xfer(port, "POST /echo HTTP/1.1\r\nHost: x\r\nTransfer-Encoding: chunked\r\n\r\nzz\r\nhello\r\n0\r\n\r\n", 1000);
  printf("chunked POST with invalid chunk size 'zz': server answered %zu bytes within 1 s %s\n", o3.size(), o3.empty()? "(neither a response nor a close)":"");
  fflush(stdout); srv.stop();
}
