#include "iora/core/thread_pool.hpp"
#include <dlfcn.h>
#include <pthread.h>
#include <cstdio>
#include <unistd.h>
static thread_local int t_mark = 0;              // 1 = submitter: pause after first mutex unlock
static std::atomic<int> g_paused{0}; static std::atomic<int> g_go{0};
extern "C" int pthread_mutex_unlock(pthread_mutex_t* m){ static auto real=(int(*)(pthread_mutex_t*))dlsym(RTLD_NEXT,"pthread_mutex_unlock"); int rc=real(m);
  if (t_mark==1) { t_mark=2; g_paused++; while(!g_go.load()) sched_yield(); } return rc; }
int main(){
  iora::core::Logger::setLevel(iora::core::Logger::Level::Error);
  iora::core::ThreadPool pool(1, 2, std::chrono::seconds(30), 64);
  usleep(50000);
  std::atomic<int> ran{0}; std::atomic<bool> gate{false};
  const int N=4; std::vector<std::thread> subs;
  for(int i=0;i<N;i++) subs.emplace_back([&]{ t_mark=1; bool ok = pool.tryEnqueue([&]{ while(!gate) usleep(1000); ran++; }); (void)ok; });
  while(g_paused.load()<N) usleep(1000);       // all N passed the `_threads.size() < _maxSize` check under the lock, none has spawned yet
  g_go=1; for(auto&t:subs) t.join(); usleep(100000);
  printf("maxSize=2, threads now=%zu  %s\n", pool.getTotalThreadCount(), pool.getTotalThreadCount()>2? "VIOLATION: more workers than the configured maximum":"ok");
  gate=true; fflush(stdout);
}
