#include <chrono>
#include <atomic>
struct VClock { using duration=std::chrono::nanoseconds; using rep=duration::rep; using period=duration::period; using time_point=std::chrono::time_point<VClock>; static constexpr bool is_steady=true;
  static std::atomic<long long> ns; static time_point now(){ return time_point(duration(ns.load())); } };
std::atomic<long long> VClock::ns{1000000000LL};
#include "iora/core/timing_wheel.hpp"
#include <cstdio>
using namespace std::chrono; using iora::core::TimingWheel;
int main(){
  const auto TICK = hours(1);                      // virtual tick; the real tick thread never wakes during the test
  TimingWheel w(duration_cast<milliseconds>(TICK), 8, 2);
  w.start();
  auto adv=[&](int ticks){ VClock::ns += duration_cast<nanoseconds>(TICK).count()*ticks; return w.advance(); };
  adv(1); adv(1);                                  // normal ticking
  VClock::ns += duration_cast<nanoseconds>(TICK).count()*5;   // tick thread was delayed for 5 ticks (e.g. a slow callback)
  long long tSched = VClock::ns; long long fired=-1;
  w.schedule(duration_cast<milliseconds>(TICK*3), [&]{ fired = VClock::ns; });   // due 3 ticks from now
  VClock::ns += duration_cast<nanoseconds>(TICK).count()/10;  // 0.1 tick later the delayed advance() runs and catches up 5 ticks
  w.advance();
  double early = fired<0? -1 : 3.0 - double(fired - tSched)/duration_cast<nanoseconds>(TICK).count();
  if (fired<0) printf("not fired yet (ok)\n"); else printf("timer with 3-tick delay fired %.1f ticks after scheduling => %.1f ticks EARLY (allowed: 1)\n", 3.0-early, early);
  fflush(stdout); w.stop();
}
