// probe F-10a: interpose pthread_cond_wait in the executable; pause the consumer between predicate(false) and the real wait
#include "iora/core/blocking_queue.hpp"
#include <dlfcn.h>
#include <pthread.h>
#include <atomic>
#include <thread>
#include <cstdio>
#include <chrono>
#include <unistd.h>
static std::atomic<int> g_arm{0}, g_at_point{0}, g_release{0};
static thread_local bool t_marked = false;
extern "C" int pthread_cond_wait(pthread_cond_t* c, pthread_mutex_t* m) {
  using fn = int(*)(pthread_cond_t*, pthread_mutex_t*);
  static fn real = (fn)dlsym(RTLD_NEXT, "pthread_cond_wait");
  if (t_marked && g_arm.load()) { g_at_point = 1; while(!g_release.load()) std::this_thread::yield(); }
  return real(c, m);
}
int main(){
  iora::core::BlockingQueue<int> q(4);
  std::atomic<bool> returned{false};
  g_arm = 1;
  std::thread consumer([&]{ t_marked = true; int v; bool ok = q.dequeue(v); returned = true; printf("dequeue returned %d\n", ok); });
  while(!g_at_point.load()) std::this_thread::yield();   // consumer evaluated pred (false), holds the mutex, is about to wait
  q.close();                                              // close() does not take the mutex: completes, notify_all reaches nobody
  g_release = 1;                                          // consumer now really blocks
  std::this_thread::sleep_for(std::chrono::milliseconds(500));
  printf("closed=%d consumer_returned=%d  => %s\n", q.isClosed(), (int)returned.load(), returned? "OK":"LOST WAKEUP: blocked although closed");
  fflush(stdout); if(!returned){ _exit(3);} 
  consumer.join();
}
