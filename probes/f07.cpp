#include "iora/network/transport.hpp"
#include "iora/network/transport_impl.hpp"
#include <arpa/inet.h>
#include <sys/socket.h>
#include <unistd.h>
#include <cstdio>
using namespace iora::network;
int main(){
  int ls = socket(AF_INET, SOCK_STREAM, 0); sockaddr_in a{}; a.sin_family=AF_INET; a.sin_addr.s_addr=inet_addr("127.0.0.1"); bind(ls,(sockaddr*)&a,sizeof a); listen(ls,4); socklen_t sl=sizeof a; getsockname(ls,(sockaddr*)&a,&sl);
  auto t = Transport::tcp(TransportConfig{});      // clientTls.enabled == false (default)
  t->start();
  auto r = t->connectSync("127.0.0.1", ntohs(a.sin_port), TlsMode::Client, std::chrono::milliseconds(1000));   // TLS REQUESTED
  printf("connectSync(TlsMode::Client) with TLS not enabled in config -> %s\n", r.isOk()? "ok":"error");
  if (r.isOk()) { int c = accept(ls,nullptr,nullptr); t->send(r.value(), "secret-password", 15); char b[64]; timeval tv{1,0}; setsockopt(c,SOL_SOCKET,SO_RCVTIMEO,&tv,sizeof tv); ssize_t n = recv(c,b,sizeof b,0);
    printf("bytes on the wire: \"%.*s\"  %s\n", (int)(n>0?n:0), b, n>0? "VIOLATION: application bytes in clear text on a session requested with TLS":""); }
  fflush(stdout); t->stop();
}
