---- MODULE BQ ----
EXTENDS Naturals, Sequences, FiniteSets, TLC
CONSTANTS Cap, Producers, Consumers, Closer, CloseTakesMutex
Threads == Producers \cup Consumers \cup {Closer}
VARIABLES q, closed, mutex, pc, parkedNE, parkedNF, wake, last
vars == <<q, closed, mutex, pc, parkedNE, parkedNF, wake, last>>
Init == /\ q = <<>> /\ closed = FALSE /\ mutex = "free" /\ pc = [t \in Threads |-> "start"]
        /\ parkedNE = {} /\ parkedNF = {} /\ wake = {} /\ last = [a |-> "init"]
\* ---- consumer: dequeue(out) blocking ----
CLock(t) == pc[t] = "start" /\ t \in Consumers /\ mutex = "free" /\ mutex' = t /\ pc' = [pc EXCEPT ![t] = "pred"]
            /\ UNCHANGED <<q, closed, parkedNE, parkedNF, wake>> /\ last' = [a |-> "lock", t |-> t]
CPredTrue(t) == pc[t] = "pred" /\ t \in Consumers /\ (q # <<>> \/ closed) /\ mutex' = "free"
            /\ (IF q # <<>> THEN q' = Tail(q) /\ pc' = [pc EXCEPT ![t] = "notifyNF"] /\ last' = [a |-> "deq", t |-> t, ok |-> TRUE, v |-> Head(q)]
                ELSE UNCHANGED q /\ pc' = [pc EXCEPT ![t] = "done"] /\ last' = [a |-> "deq", t |-> t, ok |-> FALSE])
            /\ UNCHANGED <<closed, parkedNE, parkedNF, wake>>
CPredFalse(t) == pc[t] = "pred" /\ t \in Consumers /\ ~(q # <<>> \/ closed) /\ pc' = [pc EXCEPT ![t] = "block"]
            /\ UNCHANGED <<q, closed, mutex, parkedNE, parkedNF, wake>> /\ last' = [a |-> "predFalse", t |-> t]
CBlock(t) == pc[t] = "block" /\ t \in Consumers /\ mutex' = "free" /\ parkedNE' = parkedNE \cup {t} /\ pc' = [pc EXCEPT ![t] = "parked"]
            /\ UNCHANGED <<q, closed, parkedNF, wake>> /\ last' = [a |-> "block", t |-> t]
CWake(t) == pc[t] = "parked" /\ t \in wake /\ mutex = "free" /\ mutex' = t /\ wake' = wake \ {t} /\ pc' = [pc EXCEPT ![t] = "pred"]
            /\ UNCHANGED <<q, closed, parkedNE, parkedNF>> /\ last' = [a |-> "wake", t |-> t]
CNotifyNF(t) == pc[t] = "notifyNF" /\ pc' = [pc EXCEPT ![t] = "done"]
            /\ (IF parkedNF = {} THEN UNCHANGED <<parkedNF, wake>> ELSE \E w \in parkedNF : parkedNF' = parkedNF \ {w} /\ wake' = wake \cup {w})
            /\ UNCHANGED <<q, closed, mutex, parkedNE>> /\ last' = [a |-> "notifyNF", t |-> t]
\* ---- producer: tryQueue(item) non-blocking (keeps the probe small) ----
PTry(t) == pc[t] = "start" /\ t \in Producers /\ mutex = "free"
            /\ (IF closed \/ Len(q) >= Cap THEN UNCHANGED q /\ pc' = [pc EXCEPT ![t] = "done"] /\ last' = [a |-> "tryq", t |-> t, ok |-> FALSE]
                ELSE q' = Append(q, t) /\ pc' = [pc EXCEPT ![t] = "notifyNE"] /\ last' = [a |-> "tryq", t |-> t, ok |-> TRUE])
            /\ UNCHANGED <<closed, mutex, parkedNE, parkedNF, wake>>
PNotifyNE(t) == pc[t] = "notifyNE" /\ pc' = [pc EXCEPT ![t] = "done"]
            /\ (IF parkedNE = {} THEN UNCHANGED <<parkedNE, wake>> ELSE \E w \in parkedNE : parkedNE' = parkedNE \ {w} /\ wake' = wake \cup {w})
            /\ UNCHANGED <<q, closed, mutex, parkedNF>> /\ last' = [a |-> "notifyNE", t |-> t]
\* ---- close(): as in the code, the flag is set WITHOUT the mutex (CloseTakesMutex = FALSE) ----
CloseSet(t) == pc[t] = "start" /\ t = Closer /\ (CloseTakesMutex => mutex = "free") /\ closed' = TRUE /\ pc' = [pc EXCEPT ![t] = "notifyAll"]
            /\ UNCHANGED <<q, mutex, parkedNE, parkedNF, wake>> /\ last' = [a |-> "closeSet", t |-> t]
CloseNotifyAll(t) == pc[t] = "notifyAll" /\ wake' = wake \cup parkedNE \cup parkedNF /\ parkedNE' = {} /\ parkedNF' = {} /\ pc' = [pc EXCEPT ![t] = "done"]
            /\ UNCHANGED <<q, closed, mutex>> /\ last' = [a |-> "closeNotifyAll", t |-> t]
Next == \E t \in Threads : CLock(t) \/ CPredTrue(t) \/ CPredFalse(t) \/ CBlock(t) \/ CWake(t) \/ CNotifyNF(t) \/ PTry(t) \/ PNotifyNE(t) \/ CloseSet(t) \/ CloseNotifyAll(t)
Spec == Init /\ [][Next]_vars
CapOk == Len(q) <= Cap
NoStuck == (~ENABLED Next) => \A t \in Threads : pc[t] = "done"
====
