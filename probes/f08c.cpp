// probe F-08c: stop() whose internal drain(5000) times out leaves _accepting == true; a later schedule on the STOPPED service is accepted and never fires
#include "iora/core/timer.hpp"
#include <cstdio>
#include <unistd.h>
using namespace iora::core; using namespace std::chrono;
int main(){
  TimerService svc; std::atomic<bool> started{false}; std::atomic<int> lateRuns{0};
  svc.scheduleAfter(milliseconds(5), [&]{ started = true; sleep(6); });      // handler longer than stop()'s 5 s drain budget
  while(!started) usleep(1000);
  auto r = svc.stop();                                                       // drain times out, service is stopped anyway
  printf("stop() -> success=%d state=%d\n", (int)r.success, (int)svc.getState());
  auto id = svc.scheduleAfter(milliseconds(10), [&]{ lateRuns++; });
  usleep(300000);
  printf("scheduleAfter on the stopped service -> id=%llu (0 = refused); handler runs=%d  %s\n", (unsigned long long)id, lateRuns.load(),
         (id != 0 && lateRuns == 0) ? "VIOLATION: accepted on a stopped service and silently lost" : "");
  fflush(stdout);
}
