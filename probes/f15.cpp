#include "iora/network/http_server.hpp"
#include "iora/network/dns/dns_cache.hpp"
#include <cstdio>
#include <future>
using namespace iora::network;
struct S : HttpServer { using HttpServer::HttpServer; std::size_t f(const std::string& d, std::size_t p) const { return findChunkedRequestEnd(d,p); } };
int main(){
  { // chunk-size line "ffffffffffffffec\r\n": 16 digits => line+CRLF = 18, +chunkSize(2^64-20)+2 == 0 mod 2^64 => pos returns to itself
    S s("127.0.0.1", 0); std::string body = "ffffffffffffffec\r\nxx";
    auto fut = std::async(std::launch::async, [&]{ return s.f(body, 0); });
    if (fut.wait_for(std::chrono::seconds(2)) == std::future_status::timeout) { printf("findChunkedRequestEnd: NO RETURN after 2s (infinite loop)\n"); fflush(stdout); }
    else printf("findChunkedRequestEnd returned %zu\n", fut.get());
  }
  { dns::DnsCache cache; dns::DnsQuestion q; q.qname="Example.COM"; q.qtype=dns::DnsType::A; q.qclass=dns::DnsClass::IN;
    dns::DnsResult r; dns::DnsResourceRecord rr; rr.name="example.com"; rr.ttl=0; r.answers.push_back(rr);
    cache.put(q, r); dns::DnsResult out; dns::DnsQuestion q2=q; q2.qname="example.com";
    printf("DnsCache: put with min TTL 0, immediate get -> %s\n", cache.get(q2,out)? "HIT (served although TTL 0 already elapsed)":"miss"); fflush(stdout); }
  _exit(0);
}
