CONSTANTS Cap = 1  Producers = {p1}  Consumers = {c1, c2}  Closer = k  CloseTakesMutex = TRUE
SPECIFICATION Spec
INVARIANTS CapOk NoStuck
CHECK_DEADLOCK FALSE
