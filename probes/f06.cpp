#include "iora/network/transport.hpp"
#include "iora/network/transport_impl.hpp"
#include <arpa/inet.h>
#include <sys/socket.h>
#include <unistd.h>
#include <cstdio>
#include <thread>
using namespace iora::network;
int main(){
  TransportConfig cfg; auto t = Transport::udp(cfg);
  std::mutex m; std::vector<std::string> log;
  auto L=[&](std::string s){ std::lock_guard<std::mutex> g(m); log.push_back(s); };
  t->onAccept([&](SessionId s, const TransportAddress& a){ L("accept sid="+std::to_string(s)+" from "+a.host+":"+std::to_string(a.port)); });
  t->onConnect([&](SessionId s, const TransportAddress&){ L("connect sid="+std::to_string(s)); });
  t->onData([&](SessionId s, iora::core::BufferView d, std::chrono::steady_clock::time_point){ L("data sid="+std::to_string(s)+" \""+std::string((const char*)d.data(), d.size())+"\""); });
  t->onClose([&](SessionId s, const TransportErrorInfo&){ L("close sid="+std::to_string(s)); });
  t->start();
  auto lr = t->addListener("127.0.0.1", 0, TlsMode::None); auto la = t->getListenerAddress(lr.value());
  int peer = socket(AF_INET, SOCK_DGRAM, 0); sockaddr_in pa{}; pa.sin_family=AF_INET; pa.sin_addr.s_addr=inet_addr("127.0.0.1"); pa.sin_port=0; bind(peer,(sockaddr*)&pa,sizeof pa); socklen_t sl=sizeof pa; getsockname(peer,(sockaddr*)&pa,&sl);
  sockaddr_in to{}; to.sin_family=AF_INET; to.sin_addr.s_addr=inet_addr("127.0.0.1"); to.sin_port=htons(la.port);
  auto dg=[&](const char* s){ sendto(peer,s,strlen(s),0,(sockaddr*)&to,sizeof to); std::this_thread::sleep_for(std::chrono::milliseconds(100)); };
  dg("d1");                                              // implicit accept -> session A receives p's datagrams
  auto b = t->connectViaListener(lr.value(), "127.0.0.1", ntohs(pa.sin_port)); std::this_thread::sleep_for(std::chrono::milliseconds(100)); // session B to same peer
  dg("d2");                                              // still lands on A
  t->close(b.value()); std::this_thread::sleep_for(std::chrono::milliseconds(100));                       // close the OTHER session
  dg("d3");                                              // property: lands on A with no new accept
  for(auto&s:log) printf("  %s\n", s.c_str());
  t->stop(); close(peer);
}
