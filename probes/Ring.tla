---- MODULE Ring ----
\* scratch calibration: SPSC ring with an explicit release/acquire fragment of the C++11 memory model
EXTENDS Naturals, Sequences, FiniteSets, TLC
CONSTANTS Cap, NPush, NPop, PushTailAcq, PopHeadAcq
T == {"P", "C"}
Max(a, b) == IF a > b THEN a ELSE b
Join(v, w) == [t \in T |-> Max(v[t], w[t])]
VARIABLES hist,    \* hist[a] : sequence of [val, vc] -- modification order of atomic a \in {"head","tail"}
          view,    \* view[t][a] : index into hist[a] of the newest write t has observed
          vc,      \* vector clocks
          pc, reg, \* program counter / registers per thread
          lastW, reads, \* per slot: last plain write epoch, plain reads since
          done, race
vars == <<hist, view, vc, pc, reg, lastW, reads, done, race>>
Zero == [t \in T |-> 0]
Init == /\ hist = [a \in {"head","tail"} |-> << [val |-> 0, vc |-> Zero] >>]
        /\ view = [t \in T |-> [a \in {"head","tail"} |-> 1]]
        /\ vc = [t \in T |-> Zero] /\ pc = [t \in T |-> "idle"] /\ reg = [t \in T |-> [h |-> 0, tl |-> 0]]
        /\ lastW = [s \in 0..Cap-1 |-> [t |-> "P", c |-> 0]] /\ reads = [s \in 0..Cap-1 |-> {}]
        /\ done = [t \in T |-> 0] /\ race = FALSE
Tick(t) == [vc EXCEPT ![t][t] = @ + 1]
HB(e, t) == e.c <= vc[t][e.t]          \* epoch e happens-before thread t's current point
\* generic atomic load of a by t into register r, possibly stale, acquire or relaxed
Load(t, a, r, acq, nextpc) == \E i \in view[t][a]..Len(hist[a]) :
      /\ view' = [view EXCEPT ![t][a] = i]
      /\ reg' = [reg EXCEPT ![t][r] = hist[a][i].val]
      /\ vc' = IF acq THEN [vc EXCEPT ![t] = Join(@, hist[a][i].vc)] ELSE vc
      /\ pc' = [pc EXCEPT ![t] = nextpc] /\ UNCHANGED <<hist, lastW, reads, done, race>>
StoreRel(t, a, v, nextpc) == LET nvc == Tick(t) IN
      /\ hist' = [hist EXCEPT ![a] = Append(@, [val |-> v, vc |-> nvc[t]])]
      /\ view' = [view EXCEPT ![t][a] = Len(hist[a]) + 1] /\ vc' = nvc
      /\ pc' = [pc EXCEPT ![t] = nextpc] /\ done' = [done EXCEPT ![t] = @ + 1] /\ UNCHANGED <<reg, lastW, reads, race>>
\* producer: tryPush
P1 == pc["P"] = "idle" /\ done["P"] < NPush /\ Load("P", "head", "h", FALSE, "p2")
P2 == pc["P"] = "p2" /\ Load("P", "tail", "tl", PushTailAcq, "p3")
P3full == pc["P"] = "p3" /\ reg["P"].h - reg["P"].tl >= Cap /\ pc' = [pc EXCEPT !["P"] = "idle"] /\ UNCHANGED <<hist, view, vc, reg, lastW, reads, done, race>>
P3write == pc["P"] = "p3" /\ reg["P"].h - reg["P"].tl < Cap /\ LET s == reg["P"].h % Cap  nvc == Tick("P") IN
      /\ race' = (race \/ ~HB(lastW[s], "P") \/ \E e \in reads[s] : ~HB(e, "P"))
      /\ lastW' = [lastW EXCEPT ![s] = [t |-> "P", c |-> nvc["P"]["P"]]] /\ reads' = [reads EXCEPT ![s] = {}]
      /\ vc' = nvc /\ pc' = [pc EXCEPT !["P"] = "p4"] /\ UNCHANGED <<hist, view, reg, done>>
P4 == pc["P"] = "p4" /\ StoreRel("P", "head", reg["P"].h + 1, "idle")
\* consumer: tryPop
C1 == pc["C"] = "idle" /\ done["C"] < NPop /\ Load("C", "tail", "tl", FALSE, "c2")
C2 == pc["C"] = "c2" /\ Load("C", "head", "h", PopHeadAcq, "c3")
C3empty == pc["C"] = "c3" /\ reg["C"].tl >= reg["C"].h /\ pc' = [pc EXCEPT !["C"] = "idle"] /\ UNCHANGED <<hist, view, vc, reg, lastW, reads, done, race>>
C3read == pc["C"] = "c3" /\ reg["C"].tl < reg["C"].h /\ LET s == reg["C"].tl % Cap  nvc == Tick("C") IN
      /\ race' = (race \/ ~HB(lastW[s], "C"))
      /\ reads' = [reads EXCEPT ![s] = @ \cup {[t |-> "C", c |-> nvc["C"]["C"]]}]
      /\ vc' = nvc /\ pc' = [pc EXCEPT !["C"] = "c4"] /\ UNCHANGED <<hist, view, reg, lastW, done>>
C4 == pc["C"] = "c4" /\ StoreRel("C", "tail", reg["C"].tl + 1, "idle")
Next == P1 \/ P2 \/ P3full \/ P3write \/ P4 \/ C1 \/ C2 \/ C3empty \/ C3read \/ C4
Spec == Init /\ [][Next]_vars
NoDataRace == ~race
\* bound the busy-wait retries so the graph is finite: a failed attempt may only repeat while the other side can still make progress
====
