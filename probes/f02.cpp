// probe F-02a: connect() accepted inside shutdownDrain's window (after its process(), before the queue is closed) gets an id and never a close.
// The I/O thread is paused at the pthread_rwlock_wrlock it takes inside shutdownDrain (std::shared_mutex -> pthread_rwlock) - a sync point, no source hook.
#include "iora/network/transport.hpp"
#include "iora/network/transport_impl.hpp"
#include <dlfcn.h>
#include <pthread.h>
#include <cstdio>
#include <thread>
using namespace iora::network;
static std::atomic<int> g_arm{0}, g_at{0}, g_go{0};
extern "C" int pthread_rwlock_wrlock(pthread_rwlock_t* rw){ static auto real=(int(*)(pthread_rwlock_t*))dlsym(RTLD_NEXT,"pthread_rwlock_wrlock");
  int exp=1; if (g_arm.compare_exchange_strong(exp,2)) { g_at=1; while(!g_go.load()) sched_yield(); } return real(rw); }
int main(){
  auto t = Transport::tcp(TransportConfig{}); std::mutex m; std::vector<std::string> log;
  t->onConnect([&](SessionId s, const TransportAddress&){ std::lock_guard<std::mutex> g(m); log.push_back("onConnect sid="+std::to_string(s)); });
  t->onClose([&](SessionId s, const TransportErrorInfo& e){ std::lock_guard<std::mutex> g(m); log.push_back("onClose sid="+std::to_string(s)+" ("+e.message+")"); });
  t->start(); std::this_thread::sleep_for(std::chrono::milliseconds(50));
  g_arm = 1;
  std::thread stopper([&]{ t->stop(); });
  while(!g_at.load()) sched_yield();                       // I/O thread is inside shutdownDrain, past its process(), queue not yet closed
  auto r = t->connect("127.0.0.1", 9, TlsMode::None);      // accepted?
  g_go = 1; stopper.join();
  printf("connect() during the window -> %s", r.isOk()? "ok":"refused"); if (r.isOk()) printf(" sid=%llu", (unsigned long long)r.value()); printf("\n");
  std::this_thread::sleep_for(std::chrono::milliseconds(200));
  for (auto& s : log) printf("  %s\n", s.c_str());
  if (r.isOk() && log.empty()) printf("VIOLATION: the application saw sid %llu (returned by connect) but it never received a close, although the transport was stopped in an orderly way\n", (unsigned long long)r.value());
  fflush(stdout);
}
