CONSTANTS Cap = 2 NPush = 3 NPop = 3 PushTailAcq = FALSE PopHeadAcq = TRUE
SPECIFICATION Spec
INVARIANT NoDataRace
CHECK_DEADLOCK FALSE
