#include "iora/storage/kvstore.hpp"
#include <cstdio>
#include <filesystem>
using namespace iora::storage;
int main(){
  namespace fs = std::filesystem; fs::remove_all("/verif/build/probe_kv"); fs::create_directories("/verif/build/probe_kv");
  std::string p = "/verif/build/probe_kv/db"; KVStoreConfig c; c.enableBackgroundCompaction=false;
  { KVStore s(p,c); s.setString("a","1"); s.setString("b","2"); }           // two acknowledged writes
  auto sz = fs::file_size(p+".log");
  { KVStore s(p,c); s.setString("c","3333333333333333333333333333333333333333"); } // third write...
  auto sz2 = fs::file_size(p+".log");
  fs::resize_file(p+".log", sz + 9);   // ...torn by a crash 9 bytes into the record (len + op + part of key len)
  printf("log %zu -> %zu, cut to %zu (crash mid-append of c)\n",(size_t)sz,(size_t)sz2,(size_t)sz+9);
  { KVStore s(p,c); printf("after crash-reopen: a=%s b=%s c=%s\n", s.getString("a").value_or("-").c_str(), s.getString("b").value_or("-").c_str(), s.getString("c").value_or("-").c_str());
    s.setString("d","4"); s.setString("e","5"); printf("acknowledged d=4 e=5; d=%s e=%s\n", s.getString("d").value_or("-").c_str(), s.getString("e").value_or("-").c_str()); }  // clean close
  { KVStore s(p,c); printf("after clean reopen: a=%s b=%s d=%s e=%s  %s\n", s.getString("a").value_or("-").c_str(), s.getString("b").value_or("-").c_str(), s.getString("d").value_or("-").c_str(), s.getString("e").value_or("-").c_str(),
      (s.getString("d")&&s.getString("e"))? "OK":"VIOLATION: acknowledged writes lost"); }
}
