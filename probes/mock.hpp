#pragma once
#include "iora/network/transport.hpp"
#include "iora/network/transport_impl.hpp"
#include "/repo/tests/network/transport_test_seam.hpp"
#include <deque>
#include <functional>
#include <mutex>
#include <condition_variable>
#include <thread>
#include <atomic>
using namespace iora::network;
// Scripted engine: harness-owned "I/O thread" runs posted closures; connect()/close() only enqueue/notify the harness.
struct MockEngine : detail::EngineBase {
  Callbacks cbs; std::atomic<bool> running{false}; std::thread io; std::mutex m; std::condition_variable cv;
  std::deque<std::function<void()>> q; bool quit=false; std::atomic<SessionId> next{1};
  std::function<void(SessionId)> onCloseCmd; std::function<void(SessionId)> onConnectCmd;
  StartResult start() override { running=true; io=std::thread([this]{ for(;;){ std::function<void()> f; { std::unique_lock<std::mutex> lk(m); cv.wait(lk,[&]{return quit||!q.empty();}); if(q.empty()) return; f=std::move(q.front()); q.pop_front(); } f(); } }); return StartResult::ok(); }
  void post(std::function<void()> f){ { std::lock_guard<std::mutex> g(m); q.push_back(std::move(f)); } cv.notify_one(); }
  void postSync(std::function<void()> f){ std::mutex mm; std::condition_variable c; bool d=false; post([&]{ f(); { std::lock_guard<std::mutex> g(mm); d=true; } c.notify_one(); }); std::unique_lock<std::mutex> lk(mm); c.wait(lk,[&]{return d;}); }
  void stop() override { bool e=true; if(!running.compare_exchange_strong(e,false)) return; { std::lock_guard<std::mutex> g(m); quit=true; } cv.notify_one(); if(io.joinable()) io.join(); }
  ~MockEngine(){ stop(); }
  bool isRunning() const override { return running; }
  TransportErrorInfo lastError() const override { return {}; }
  ListenResult addListener(const std::string&, std::uint16_t, TlsMode) override { return ListenResult::ok(1); }
  ConnectResult connect(const std::string&, std::uint16_t, TlsMode) override { SessionId s=next++; if(onConnectCmd) onConnectCmd(s); return ConnectResult::ok(s); }
  ConnectResult connectViaListener(ListenerId, const std::string&, std::uint16_t) override { return ConnectResult::err({}); }
  bool close(SessionId s) override { if(onCloseCmd) onCloseCmd(s); return true; }
  bool send(SessionId, const void*, std::size_t) override { return true; }
  void sendAsync(SessionId s, const void*, std::size_t n, SendCompleteCallback cb) override { if(cb) cb(s, SendResult::ok(n)); }
  void setCallbacks(Callbacks c) override { cbs=std::move(c); }
  TransportStats getStats() const override { return {}; }
  TransportAddress getListenerAddress(ListenerId) const override { return {}; }
  TransportAddress getLocalAddress(SessionId) const override { return {}; }
  TransportAddress getRemoteAddress(SessionId) const override { return {}; }
  bool setDscp(SessionId, std::uint8_t) override { return true; }
  std::thread::id getIoThreadId() const override { return io.get_id(); }
  void detachForTermination() override { running=false; if(io.joinable()) io.detach(); }
  void scheduleSelfDestruct(std::function<void()>) override {}
};
